"""C13 The archive never loses a covered goal or a better solution.

Design: Archive.tla (CoverageArchive, MIOArchive, MIOPopulation as state machines over a pool of
solution objects; transition functions in ArchiveOps.tla) checked exhaustively by TLC against the
clauses CoveredGrows, ArchivedCovers, ReplaceRule, MIOCap, MIOCoveredOne (+ MIOStaysCovered),
CoveredConsistent.
P2: every call history of MC_Archive (exhaustive, small depth) and random long histories
(-simulate) are replayed on the real classes with real TestCaseChromosome / TestCase /
ExecutionResult objects and stub fitness functions; ArchiveTrace.tla evaluates the same clauses
on the archive projected after every call.
P1 (thorough): real DYNAMOSA / MOSA / MIO searches on a small module with the archive methods
wrapped in the harness process; same projection, same trace spec; archived tests re-executed at
the end.
"""

from __future__ import annotations

import hashlib
import json

from harness.adapters import archive as ad
from harness.core import Ctx, MachineryError, parallel_map

CLAUSES = ("CoveredGrows", "ArchivedCovers", "ReplaceRule", "MIOCap", "MIOCoveredOne",
           "CoveredConsistent", "ArchiveOwns")
ACTIONS = ["CovUpdateA", "AddGoalsA", "ResetA", "MioUpdateA", "MioShrinkA", "MioGetSolA",
           "PopAddA", "PopShrinkA", "PopSampleA"]
CLS = {"cov": "CoverageArchive", "mio": "MIOArchive", "pop": "MIOPopulation"}
METHOD = {"update": "update", "mio_update": "update", "add_goals": "add_goals", "reset": "reset",
          "shrink": "shrink_solutions", "getsol": "get_solution", "pop_add": "add_solution",
          "pop_shrink": "shrink_population", "pop_sample": "sample_solution",
          "observe": "(between calls)", "recheck": "(re-execution)", "init": "__init__"}


def _err(sol: dict) -> str:
    return "err" if sol["res"] in ("exc", "to") else "ok"


def signature(clause: str, ev: dict, pre: dict, capn: int = 0) -> str:
    """Specific to the class, the call and the kind of input that breaks the clause."""
    post = ev["post"]
    site = "any"
    if clause == "ArchivedCovers":
        if ev["mode"] in ("mio", "pop"):
            tiny = any(f == ad.T for s in ev["sols"] for f in s["fit"])
            bad = [p for g, p in enumerate(post["pops"], start=1)
                   if p["covd"] and p["sols"] and g not in p["sols"][0]["sol"]["covers"]]
            site = "h-rounds-to-1.0" if tiny and bad else "covered-population-without-cover"
        else:
            site = "archived-solution-does-not-cover"
    elif clause == "ReplaceRule":
        cov = list(pre["cov"])
        pairs = []
        for st in ev["steps"]:           # the assignments the archive made, in order
            pairs.append((st["g"], cov[st["g"] - 1], st["sol"]))
            cov[st["g"] - 1] = st["sol"]
        pairs += [(g, o, n) for g, (o, n) in enumerate(zip(cov, post["cov"]), start=1)]
        for g, old, new in pairs:
            legal = g in new["covers"] and ((_err(old) == "err" and _err(new) == "ok")
                                            or new["size"] < old["size"])
            if old["id"] and new["id"] and old != new and not legal:
                offered = {s["id"] for s in ev["sols"]}
                if new["id"] not in offered:
                    site = "replaced-by-unoffered-or-mutated"
                elif g not in new["covers"]:
                    site = "replacement-does-not-cover"
                else:
                    rel = ("shorter" if new["size"] < old["size"]
                           else "same-size" if new["size"] == old["size"] else "longer")
                    site = f"old-{_err(old)}-new-{_err(new)}-{rel}"
                    if len(ev["sols"]) > 1:
                        site += "-multi"
                break
    elif clause == "CoveredGrows":
        site = "goal-lost"
    elif clause == "MIOCap":
        own = all(len(p["sols"]) <= p["cap"] for p in post["pops"])
        site = "population-over-announced-capacity" if own and capn else "population-over-capacity"
    elif clause == "MIOCoveredOne":
        site = "covered-population"
    elif clause == "ArchiveOwns":
        site = "archived-chromosome-edited-outside-archive"
    elif clause == "CoveredConsistent":
        site = "covered-vs-uncovered-records"
    return f"C13/{clause}/{CLS[ev['mode']]}.{METHOD.get(ev['op'], ev['op'])}/{site}"


def _detail(ev: dict, pre: dict) -> str:
    def short(view):
        if view["pops"]:
            return [(p["cap"], p["covd"], [(q["h"], q["sol"]["id"], q["sol"]["size"],
                                            q["sol"]["res"], q["sol"]["covers"])
                                           for q in p["sols"]]) for p in view["pops"]]
        return {"objs": view["objs"], "unc": view["unc"],
                "cov": [(s["id"], s["size"], s["res"], s["covers"]) for s in view["cov"]]}
    steps = [(st["g"], st["sol"]["id"], st["sol"]["size"], st["sol"]["res"]) for st in ev["steps"]]
    return (f"{CLS[ev['mode']]}.{METHOD.get(ev['op'], ev['op'])}(sols={ev['sols']}, gs={ev['gs']}, "
            f"n={ev['n']}) : {json.dumps(short(pre))} -> {json.dumps(short(ev['post']))}"
            f" assignments(goal,id,size,res)={steps}")[:1500]


def _batches(ctx: Ctx):
    """Yield (name, behaviours): exhaustive MC_Archive configurations, then random long ones."""
    # MC_Archive_shrink: one MIO target, every history of updates / shrinks (n lowered at any fill
    # level of the population) / samples
    cfgs = ["MC_Archive.cfg", "MC_Archive_pairs.cfg", "MC_Archive_shrink.cfg"]
    if not ctx.quick:
        cfgs += ["MC_Archive_t_shrink.cfg","MC_Archive_t_cov3.cfg", "MC_Archive_t_cov2.cfg", "MC_Archive_t_mio3.cfg",
                 "MC_Archive_t_mio2.cfg", "MC_Archive_t_pop3.cfg"]
    for cfg in cfgs:
        yield cfg[:-4], ctx.behaviours("MC_Archive", cfg)
    sims = ctx.simulate("MC_Archive", "MC_Archive_sim.cfg", num=250 if ctx.quick else 1200, depth=9)
    yield "simulated", [{"init": st["init0"], "hist": st["hist"], "seed": ctx.seed + k}
                        for k, st in enumerate(sims) if st.get("hist")]


LS_ON = {"local_search": True, "local_search_probability": 1.0, "local_search_time": 2000}


def _p1_jobs(ctx: Ctx) -> list[dict]:
    """Real searches observed call by call and after every step of the search loop (archived tests
    re-executed).  Both tiers: DynaMOSA with local search on (every primitive statement is tried) on a
    module of integer equalities, a few seeds.  Thorough: also DYNAMOSA / MOSA / MIO without it."""
    jobs = []
    for k in range(6 if ctx.quick else 10):
        jobs.append({"algorithm": "DYNAMOSA", "dir": str(ctx.work / f"p1-ls-{k}"), "module": "c13_ls_sut",
                     "sut": "ls", "seed": ctx.seed + 101 + k, "iterations": 6, "population": 6,
                     "max_events": 120, "local_search": LS_ON, "every_step": True})
    if ctx.quick:
        return jobs
    for k, (alg, iters, pop) in enumerate([("DYNAMOSA", 12, 6), ("DYNAMOSA", 10, 4), ("MOSA", 10, 6),
                                           ("MIO", 80, 4), ("MIO", 60, 4)]):
        jobs.append({"algorithm": alg, "dir": str(ctx.work / f"p1-{k}"), "module": "c13_sut",
                     "seed": ctx.seed + 1 + k, "iterations": iters, "population": pop,
                     "max_events": 120, "every_step": True})
    return jobs


def _p1_one(job: dict) -> dict:
    return ad.run_search(job)


def _judge(ctx: Ctx, traces: list[dict], behs: list, kind: str) -> None:
    verdicts = ctx.validate("ArchiveTrace", traces, chunk=4000 if len(traces) < 12000 else 8000)
    for idx, bad in sorted(verdicts.items()):
        tr = traces[idx]
        for clause, step in bad:
            ev = tr["ev"][step - 1]
            pre = tr["ev"][step - 2]["post"] if step >= 2 else ev["post"]
            if clause == "Follows":
                ctx.drift.append(f"{kind}: real {CLS[ev['mode']]}.{METHOD.get(ev['op'], ev['op'])} "
                                 f"differs from the design model: {_detail(ev, pre)[:400]}")
                continue
            if clause not in CLAUSES:
                raise MachineryError(f"unexpected formula {clause} violated in trace {idx}")
            capn = ([e["n"] for e in tr["ev"][:step] if e["op"] in ("init", "shrink", "pop_shrink")] or [0])[-1]
            ctx.bad(clause, signature(clause, ev, pre, capn), _detail(ev, pre) + f" announced capacity={capn}",
                    trace={"ev": tr["ev"][:step]}, behaviour=behs[idx])


def run(ctx: Ctx) -> None:
    ctx.rule = ("case = one public call on a real archive object inside a call history: "
                "(class, constructor arguments, history so far, call, offered solutions); histories "
                "are all MC_Archive behaviours up to the configured depth over a pool of solution "
                "objects (covers x size x execution result) plus random longer ones (-simulate); "
                "non-trivial = distinct (class, call, archive view before, arguments) whose call "
                "offered a solution or changed the archive")
    ctx.assumptions = [
        "P2 solutions are real TestCaseChromosome/TestCase/ExecutionResult objects; is_covered and "
        "fitness come from stub fitness functions (one per goal) that answer from the abstract solution",
        "timeouts are modelled as ExecutionResult(timeout=True) without exceptions",
        "the design model assumes h = 1.0 iff fitness = 0.0; the replay does not (class 'tiny')",
        "ReplaceRule is evaluated on every assignment archive[goal] = solution the real "
        "CoverageArchive makes (its _covered dict is replaced by a logging dict subclass); any "
        "difference not explained by logged assignments must be reachable by legal replacements "
        "among the solutions offered in that call",
        "strict-shorter applies to CoverageArchive only; reset() is excluded from CoveredGrows",
        "MIOCap: the capacity is the one announced to the archive (initial size, then the n of the last "
        "shrink_solutions / shrink_population), and the population's own _capacity",
        "ArchiveOwns: between two archive calls nobody replaces or edits an archived chromosome (identity, "
        "statements, size compared after every step of the observed search loops)",
    ]
    ctx.design("Archive", "Archive.cfg" if ctx.quick else "Archive_thorough.cfg",
               coverage_actions=ACTIONS)
    if not ctx.quick:
        res = ctx.design("Archive", "Archive_tiny.cfg", expect_ok=False)
        names = {v.name for v in res.violations}
        if "ArchivedCovers" not in names:
            raise MachineryError("Archive_tiny.cfg: the design model with rounding h values was "
                                 f"expected to violate ArchivedCovers, got {names}")
        ctx.notes["design_with_rounding_h_violates"] = sorted(names)

    ctx.exhaustive = True
    counts = {}
    pend_b: list = []
    pend_t: list = []

    def flush() -> None:
        if pend_t:
            _judge(ctx, pend_t, pend_b, "P2")
        del pend_b[:], pend_t[:]

    for name, behs in _batches(ctx):
        counts[name] = len(behs)
        traces = parallel_map(ad.replay, behs, chunksize=64)
        ctx.evaluations += sum(len(t["ev"]) - 1 for t in traces)
        for t in traces:
            evs = t["ev"]
            for k in range(1, len(evs)):
                e, pre = evs[k], evs[k - 1]["post"]
                if e["sols"] or e["post"] != pre:
                    ctx.nontriv(hashlib.sha1(json.dumps(
                        [e["mode"], e["op"], pre, e["sols"], e["gs"], e["n"]],
                        sort_keys=True).encode()).hexdigest()[:16])
                if e["exc"]:
                    ctx.drift.append(f"P2: {CLS[e['mode']]}.{METHOD[e['op']]} raised {e['exc']}: "
                                     f"{_detail(e, pre)[:300]}")
        ctx.sample(traces[len(traces) // 2]["ev"][-1])
        pend_b += behs
        pend_t += traces
        if len(pend_t) >= 24000:   # bound the memory of a thorough run
            flush()
    flush()
    ctx.notes["behaviours"] = counts

    if True:
        jobs = _p1_jobs(ctx)
        import multiprocessing as mp
        with mp.get_context("fork").Pool(min(8, len(jobs))) as pool:
            p1 = pool.map(_p1_one, jobs, chunksize=1)
        ctx.notes["p1_runs"] = [{"algorithm": j["algorithm"], "seed": j["seed"],
                                 "iterations": j["iterations"], "archive_calls": t["calls_seen"],
                                 "local_search": bool(j.get("local_search")),
                                 "steps_rechecked": t["steps_seen"],
                                 "events_recorded": len(t["ev"]), "goals": len(t["goals"]),
                                 "covered_at_end": sum(1 for s in t["ev"][-1]["post"]["cov"] if s["id"])
                                 + sum(1 for p in t["ev"][-1]["post"]["pops"] if p["covd"])}
                                for j, t in zip(jobs, p1)]
        for j, t in zip(jobs, p1):
            if t.get("aborted"):
                ctx.drift.append(f"P1: {j['algorithm']} seed {j['seed']} aborted: {t['aborted']}")
        for t in p1:
            if len(t["ev"]) < 5:
                raise MachineryError("P1 run recorded almost no archive calls (vacuous)")
        ctx.evaluations += sum(len(t["ev"]) - 1 for t in p1)
        _judge(ctx, [{"ev": t["ev"]} for t in p1], [{"p1": j} for j in jobs], "P1")


def replay(ctx: Ctx, rec: dict) -> int:
    beh = rec["behaviour"]
    tr = ad.run_search(beh["p1"]) if "p1" in beh else ad.replay(beh)
    verdicts = ctx.validate("ArchiveTrace", [{"ev": tr["ev"]}])
    bad = [(c, s) for c, s in verdicts.get(0, []) if c != "Follows"]
    for c, s in bad:
        ev = tr["ev"][s - 1]
        print(f"{c} violated at step {s}: {_detail(ev, tr['ev'][s - 2]['post'] if s >= 2 else ev['post'])}")
    if bad:
        print(f"VIOLATION property=C13 replay=(this) clauses={bad}")
        return 1
    print("OK")
    return 0

"""C02 Reported line coverage equals the lines the interpreter actually executed.

Spec: PyMini.tla (big-step semantics of a Python fragment with if/while/for/break/continue/return/
raise/try-except-finally; predicts executed lines).  TLC enumerates every program of the universe x
every decision vector (MC_PyMini); each is rendered to Python, run uninstrumented under
sys.monitoring (interpreter ground truth) and instrumented through Pynguin's real import hook;
PyMiniTrace.tla is evaluated by TLC: reported lines = executed lines, nothing foreign.  The
semantics' own prediction is cross-checked against the interpreter (drift only).

(2) idiom corpus (comprehensions, generators, coroutines, try/except/finally, except*, with, match,
closures, classes, descriptors, ...): every function x 8 inputs x metric combinations containing
LINE, lines reported per execution = LINE events of every code object of the module (IdiomTrace.tla:
ReportedLinesExact, NoForeignLines)
"""

from harness.core import Ctx
from harness.props import _idioms, _pymini


def run(ctx: Ctx) -> None:
    ctx.rule = ("case = (program, decision vector): all PyMini programs with one compound statement (if/while/for/"
                "try with bodies of <= 2 simple statements incl. break/continue/return/raise, else/except/finally "
                "clauses) x decision vectors of length 3 (quick: 3 vectors per program; thorough: all, plus 12000 "
                "nested depth-2 programs x vectors of length 4); non-trivial = distinct cases executing > 2 lines; plus (idiom function, metric combination) x 8 inputs")
    ctx.assumptions = ["ground truth = sys.monitoring LINE events of f's code object on the uninstrumented module",
                       "coverable lines = statement lines of the rendered function body (the `def` line belongs to "
                       "the import trace)"]
    n_i = _idioms.run(ctx, "C02")  # first: the children are forked from a still small process
    _pymini.run_prop(ctx, "C02")
    ctx.evaluations += n_i


def replay(ctx: Ctx, rec: dict) -> int:
    if "idiom" in rec["behaviour"]:
        return _idioms.replay(ctx, rec, "C02")
    return _pymini.replay_prop(ctx, rec, "C02")

"""C14 Ranking and selection operators honour their contracts.

Design: Ranking.tla (preference sorting, crowding distance, rank selection in exact arithmetic;
KnownDeviations = {} must satisfy every clause, each named deviation must be found by TLC).
P2: every population of MC_Ranking (all fitness matrices / lengths in bounds, ties and equal
chromosomes included) x every call of the parameter space, random large populations, and every
(population size, bias) pair x draws are executed on the real operators; RankingTrace.tla
evaluates the clauses on the recorded fronts / distances / indices.
"""

from __future__ import annotations

from harness.adapters import ranking as ad
from harness.core import Ctx, load_findings, parallel_map
from harness.tlc import MachineryError

CLAUSES = {"Front0HasBestPerGoal", "LaterFrontsAreNonDominatedLayers", "CrowdingIn01",
           "RankSelectionInRange", "RankSelectionMonotone", "RankSelectionPrefersBetter"}
DRIFT = {"RankFollowsModel", "RankAttrFollowsModel", "CrowdFollowsModel", "SelectFollowsModel"}
SANITY = {"DrawsAscending"}

SIG_REMAINDER = "C14/LaterFrontsAreNonDominatedLayers/zero-front-fills-population/remainder-in-one-front"
SIG_TWINS = "C14/LaterFrontsAreNonDominatedLayers/equal-chromosomes/ranked-individual-listed-again"

_PARAMS: dict = {}


def _replay(beh: dict) -> dict:
    if beh["scen"] == "select":
        return ad.replay_select(beh["hist"][0], _PARAMS["draws"])
    if beh["hist"]:
        return ad.replay_rank(beh)
    return ad.replay_rank(beh, _PARAMS["calls"])


def signature(tr: dict, ev: dict, clause: str) -> str:
    if clause == "Front0HasBestPerGoal":
        site = f"exception:{ev['rt']}" if ev["rt"] != "ok" else "goal-without-best-in-front-0"
    elif clause == "LaterFrontsAreNonDominatedLayers":
        if ev["fronts"] and len(ev["fronts"][0]) >= ev["pop"]:
            return SIG_REMAINDER
        if tr["share"]:
            return SIG_TWINS
        site = "front-is-not-the-non-dominated-layer"
    elif clause == "CrowdingIn01":
        tags = sorted({t for row in ev["dt"] for t in row if t not in ("zero", "in01")})
        site = f"exception:{ev['rt']}" if ev["rt"] != "ok" else "distance:" + "+".join(tags)
    elif clause == "RankSelectionInRange":
        if ev["rt"] != "int":
            out = ev["rt"]
        elif ev["idx"] == tr["n"]:
            out = "index==len"
        elif ev["idx"] > tr["n"]:
            out = "index>len"
        else:
            out = "index<0"
        site = f"{tr['bcls']}/{out}"
    else:
        site = tr["bcls"]
    return f"C14/{clause}/{site}"


def detail(tr: dict, ev: dict) -> str:
    if tr["kind"] == "select":
        return (f"RankSelection(bias={tr['bv']}).get_index(population of {tr['n']}) with draw "
                f"{ev['d']} (K={tr['K']}) -> {ev['rt']} {ev['idx']}")
    if ev["op"] == "rank":
        return (f"population {tr['P']} (equal chromosomes shared: {tr['share']}), goals {ev['goals']}, "
                f"configured population {ev['pop']}, coins {ev['coins']} -> {ev['rt']} fronts {ev['fronts']}")
    return f"population {tr['P']}, goals {ev['goals']}: crowding on {ev['cf']} -> {ev['rt']} {ev['dt']}"


def _report(ctx: Ctx, traces: list[dict], behs: list[dict], verdicts: dict) -> set[str]:
    """ctx.bad / ctx.drift for every violated formula; returns the signatures reported as bad."""
    sigs: set[str] = set()
    for idx, bad in sorted(verdicts.items()):
        tr = traces[idx]
        for clause, step in bad:
            if clause in SANITY:
                raise MachineryError(f"harness bug: {clause} violated in trace {idx} step {step}")
            ev = tr["ev"][step - 1]
            if clause in DRIFT:
                if len(ctx.drift) < 20:
                    ctx.drift.append(f"{clause}: {detail(tr, ev)}")
                continue
            if clause not in CLAUSES:
                raise MachineryError(f"unknown formula {clause}")
            sig = signature(tr, ev, clause)
            sigs.add(sig)
            small = dict(tr, ev=[ev]) if tr["kind"] == "rank" else tr
            ctx.bad(clause, sig, detail(tr, ev), trace=small,
                    behaviour={"beh": behs[idx], "params": _PARAMS, "step": step})
    return sigs


def _design(ctx: Ctx) -> None:
    ctx.design("Ranking", "Ranking.cfg" if ctx.quick else "Ranking_thorough.cfg",
               coverage_actions=["Rank", "Crowd", "CrowdAll", "Select"])
    # the code as it is: each named deviation must break exactly its clause in the model
    for cfg, clause in (("Ranking_dev_remainder.cfg", "LaterFrontsAreNonDominatedLayers"),
                        ("Ranking_dev_bias.cfg", "RankSelectionInRange")):
        res = ctx.design("Ranking", cfg, expect_ok=False)
        names = {v.name for v in res.violations}
        if names != {clause}:
            raise MachineryError(f"design model with {cfg}: expected a counterexample to {clause}, got {names}")


def run(ctx: Ctx) -> None:
    ctx.rule = (
        "case = (population, call) enumerated by TLC from MC_Ranking: every population of size 1..N over "
        "fitness values 0..2 x 2 goals x lengths (ties and equal chromosomes included) x every "
        "(configured population size, uncovered-goal sequence, coin stream) of RankCalls, random "
        "populations up to 64 individuals x 3 goals (-simulate), and every (population size, bias) x "
        "draws {k/8n} + values adjacent to 0.0 and 1.0; non-trivial = distinct (population, goals, "
        "configured size, fronts) with at least two fronts or a shared front, and distinct "
        "(n, bias, draw, index) of rank selection")
    ctx.assumptions = [
        "fitness values are finite floats >= 0 (ComputationCache asserts this)",
        "documented range of the rank-selection bias = [1.0, 2.0]: the only range configuration.py states "
        "for a RankSelection bias (generator_selection_bias; rank_bias itself documents no range)",
        "draws are values random.random() can return: multiples of 2^-53 in [0, 1)",
        "'never prefers a worse rank' is read as: the index is non-decreasing in the draw and, on a uniform "
        "grid of draws, a smaller index never receives fewer draws than a larger one (minus one grid point)",
    ]
    _design(ctx)

    behs = ctx.behaviours("MC_Ranking", "MC_Ranking.cfg" if ctx.quick else "MC_Ranking_thorough.cfg")
    if not ctx.quick:
        behs += [b for b in ctx.behaviours("MC_Ranking", "MC_Ranking_n4.cfg") if b["scen"] == "rank"]
    params = [b for b in behs if b["scen"] == "params"]
    behs = [b for b in behs if b["scen"] != "params"]
    _PARAMS.update(calls=sorted(params[0]["calls"], key=lambda c: (c["pop"], c["goals"], c["coins"])),
                   draws=params[0]["draws"])
    n_exh = len(behs)
    n_sim = 60 if ctx.quick else 1500
    sims = ctx.simulate("MC_Ranking", "MC_Ranking_sim.cfg", num=n_sim, depth=70)
    for st in sims:
        if st["scen"] == "rank" and len(st["P"]) == st["target"] and len(st["hist"]) == 2:
            behs.append({"scen": "rank", "share": st["share"], "P": st["P"], "hist": st["hist"]})
    ctx.notes["behaviours_exhaustive"] = n_exh
    ctx.notes["behaviours_simulated"] = len(behs) - n_exh
    ctx.exhaustive = True

    traces = [_replay(b) for b in behs] if ctx.quick else parallel_map(_replay, behs, procs=8, chunksize=128)
    ctx.evaluations = sum(len(t["ev"]) for t in traces)
    for t in traces:
        if t["kind"] == "rank":
            pk = tuple((tuple(i["f"]), i["len"]) for i in t["P"])
            for e in t["ev"]:
                if e["op"] == "rank" and (len(e["fronts"]) >= 2 or any(len(f) > 1 for f in e["fronts"])):
                    ctx.nontriv(hash((pk, t["share"], e["pop"], tuple(e["goals"]),
                                      tuple(map(tuple, e["fronts"])))))
        else:
            for e in t["ev"]:
                ctx.nontriv(hash((t["n"], t["bv"], e["d"]["kind"], e["d"]["k"], e["rt"], e["idx"])))

    known = {s for s, e in load_findings().items() if e.get("property") == "C14"}
    masks = {"C14_MASK_REMAINDER": "1" if SIG_REMAINDER in known else "0",
             "C14_MASK_TWINS": "1" if SIG_TWINS in known else "0"}
    nomask = {k: "0" for k in masks}
    ctx.notes["masks_bulk_run"] = masks

    # stage 1: an unmasked sample (first/last populations, twin populations, large random ones, some
    # select cases), one trace per call so that every failing call is reported: confirms the open
    # findings and stops a mass violation early
    rank_idx = [i for i, t in enumerate(traces) if t["kind"] == "rank"]
    sel_idx = [i for i, t in enumerate(traces) if t["kind"] == "select"]
    twins = [i for i in rank_idx if traces[i]["share"]]
    big = [i for i in rank_idx if len(traces[i]["P"]) > 4]
    m = 60 if ctx.quick else 150
    sample, origin = [], []
    for i in sorted(set(rank_idx[:m] + rank_idx[-m:] + twins[:2 * m] + big[:m // 2])):
        evs = traces[i]["ev"]
        for j in range(0, len(evs), 2):
            sample.append(dict(traces[i], ev=evs[j:j + 2]))
            origin.append(i)
    for i in sel_idx[::5][:m]:
        sample.append(traces[i])
        origin.append(i)
    sigs = _report(ctx, sample, [behs[i] for i in origin],
                   ctx.validate("RankingTrace", sample, env=nomask, chunk=-(-len(sample) // 2)))
    ctx.notes["sample_unmasked_traces"] = len(sample)
    unknown = sigs - known
    if unknown:
        ctx.notes["bulk_run"] = "skipped: the unmasked sample already shows new violations"
    else:
        # stage 2: everything, open findings masked by their TLA+ class
        # (shuffled so that the long select traces are spread over the chunks)
        order = list(range(len(traces)))
        ctx.rng("bulk").shuffle(order)
        chunk = max(500, -(-len(traces) // (3 if ctx.quick else 6)))
        _report(ctx, [traces[i] for i in order], [behs[i] for i in order],
                ctx.validate("RankingTrace", [traces[i] for i in order], env=masks, chunk=chunk))
    for m, sig in (("C14_MASK_REMAINDER", SIG_REMAINDER), ("C14_MASK_TWINS", SIG_TWINS)):
        if masks[m] == "1" and sig not in sigs:
            ctx.drift.append(f"open finding {sig} was not reproduced by the unmasked sample")
    for t in (traces[0], traces[n_exh // 2], traces[-1]):
        ctx.sample({k: (v[:2] if k == "ev" else v) for k, v in t.items()})


def replay(ctx: Ctx, rec: dict) -> int:
    b = rec["behaviour"]
    _PARAMS.update(b["params"])
    tr = _replay(b["beh"])
    verdicts = ctx.validate("RankingTrace", [tr], env={"C14_MASK_REMAINDER": "0", "C14_MASK_TWINS": "0"})
    bad = [(c, s) for c, s in verdicts.get(0, []) if c in CLAUSES]
    print("replayed:", {k: v for k, v in tr.items() if k != "ev"}, f"{len(tr['ev'])} events")
    for c, s in bad:
        print(f"  {c} false at event {s}: {detail(tr, tr['ev'][s - 1])}")
    if bad:
        print(f"VIOLATION property=C14 replay=(this) clauses={sorted({c for c, _ in bad})}")
        return 1
    print("OK")
    return 0

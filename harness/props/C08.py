"""C08 Coverage exclusions remove exactly the excluded code from the goals.

Spec: PyMini.tla (Excluded / LineGoals / PredGoals over programs with exclusion markers on
statement, else, except and finally lines).  TLC enumerates every program x every marker placement
(MC_PyMiniExcl) and every scope configuration (--no-cover / --only-cover names over a second
function, a class and its method) plus the automatically excluded `__main__` and TYPE_CHECKING
blocks; each case is rendered, imported through Pynguin's real hook and the registered line goals,
predicates and code objects are compared by TLC with the prediction (PyMiniExclTrace.tla).
"""

from __future__ import annotations

import json
import logging
import sys

from harness.core import SPEC, Ctx, parallel_map


def _run(args):
    sys.path.insert(0, str(SPEC.parent / "harness" / "sut"))
    from harness.adapters import pymini_excl  # noqa: PLC0415

    logging.disable(logging.CRITICAL)
    return pymini_excl.run_case(args)


def site_kind(case: dict) -> str:
    kinds = []
    for m in case["markers"]:
        if len(m) >= 2 and m[-1] == 0 and m[-2] in (2, 3, 4, 5):
            kinds.append({2: "else-line", 3: "except-line", 4: "finally-line", 5: "try-else-line"}[m[-2]])
        else:
            # find the statement kind at this path
            blk, s = case["prog"], None
            path = list(m)
            ok = True
            while path:
                tag, idx = path[0], path[1]
                path = path[2:]
                if idx > len(blk):
                    ok = False
                    break
                s = blk[idx - 1]
                if path:
                    blk = {1: s.get("a"), 2: s.get("b", s.get("e")), 3: s.get("h"), 4: s.get("f"), 5: s.get("o")}[path[0]] or []
            kinds.append((s["t"] if (s and ok) else "end") + "-line")
    return "+".join(sorted(kinds)) or "no-marker"


def run(ctx: Ctx) -> None:
    ctx.rule = ("case = (PyMini program, placement of <= 1 (thorough: 2) exclusion markers on statement/else/except/"
                "finally lines, scope configuration); non-trivial = distinct cases with a marker or a scope list")
    ctx.assumptions = ["'excluded code' for a marker on a compound header = the header and the branch it heads; on a "
                       "clause line = that clause (the rule the documentation and the implementation share)",
                       "executable line = line in the compiled code object's line table (independent of Pynguin)"]
    cases = ctx.behaviours("MC_PyMiniExcl", timeout=1500)
    scoped = ctx.behaviours("MC_PyMiniExcl", "MC_PyMiniExcl_scopes.cfg", timeout=1500)
    if ctx.quick:  # every scope configuration is kept, 60 programs each
        per: dict[str, list] = {}
        for c in scoped:
            per.setdefault(c["scope"], []).append(c)
        rng = ctx.rng("scopes")
        scoped = []
        for k in sorted(per):
            rng.shuffle(per[k])
            scoped += per[k][:60]
    ctx.notes["scope_configurations"] = sorted({c["scope"] for c in scoped})
    if not ctx.quick:
        two = ctx.behaviours("MC_PyMiniExcl", "MC_PyMiniExcl_thorough.cfg", timeout=3000)
        rng = ctx.rng("two")
        rng.shuffle(two)
        cases += two[:8000]
    elif len(cases) > 1500:
        rng = ctx.rng("quick")
        marked = [c for c in cases if c["markers"]]
        rng.shuffle(marked)
        cases = marked[:1200]
    cases += scoped
    jobs = [(c, str(ctx.work / "px" / f"w{n % 32}"), f"{ctx.seed}x{n}") for n, c in enumerate(cases)]
    evs = parallel_map(_run, jobs, procs=8, chunksize=16)
    for e in evs:
        e.pop("source", None)
    ctx.evaluations = len(evs)
    for c in cases:
        if c["markers"] or c["scope"] != "none":
            ctx.nontriv(json.dumps([c["prog"], c["markers"], c["scope"]], sort_keys=True))
    traces = [{"ev": [e]} for e in evs]
    verdicts = ctx.validate("PyMiniExclTrace", traces)
    ndrift = 0
    for idx, bad in sorted(verdicts.items()):
        e, c = evs[idx], cases[idx]
        for clause, _ in bad:
            if clause.startswith("Conform"):
                ndrift += 1
                if len(ctx.drift) < 12:
                    ctx.drift.append(f"{clause}: {json.dumps(c['prog'])} markers={c['markers']} scope={c['scope']}: "
                                     f"want lines {e['want_lines']} preds {e['want_pred_lines']} got {e['py_line_goals']} "
                                     f"{e['py_pred_lines']}")
                continue
            ctx.bad(clause, f"C08/{clause}/{c['scope']}/{site_kind(c)}",
                    f"program {json.dumps(c['prog'])} markers={c['markers']} scope={c['scope']}: excluded lines "
                    f"{e['excl_lines']} wanted goals {e['want_lines']} preds {e['want_pred_lines']} | registered "
                    f"{e['py_line_goals']} preds {e['py_pred_lines']} g={e['g_goals']}/{e['g_exec']} "
                    f"meth={e['meth_goals']}/{e['meth_exec']} main={e['main_goals']} tc={e['tc_goals']} {e['error']}",
                    trace=traces[idx], behaviour=c)
    ctx.notes["model_vs_code_mismatches"] = ndrift
    for c, e in list(zip(cases, evs))[:2]:
        ctx.sample({"prog": c["prog"], "markers": c["markers"], "scope": c["scope"], "want": e["want_lines"],
                    "registered": e["py_line_goals"]})


def replay(ctx: Ctx, rec: dict) -> int:
    e = _run((rec["behaviour"], str(ctx.work / "px"), "replay"))
    print(e.pop("source", ""))
    print(json.dumps(e, indent=1))
    v = ctx.validate("PyMiniExclTrace", [{"ev": [e]}])
    bad = [c for c, _ in v.get(0, []) if not c.startswith("Conform")]
    if bad:
        print(f"VIOLATION property=C08 replay=(this) clauses={bad}")
        return 1
    print("OK")
    return 0

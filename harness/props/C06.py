"""C06 Control-dependence graphs match the post-dominance definition.

Design: Graphs.tla -- TLC builds every control-flow graph over <= 3 blocks, keeps the well-formed
ones and runs the loop of ControlDependenceGraph.compute as a state machine; invariants: the coded
construction = Ferrante's relation, two post-dominator formulations agree, root/branch theorems.
P2: every well-formed CFG enumerated by TLC (MC_Graphs) becomes a real cf.CFG object and goes through
the real ControlDependenceGraph.compute and the two query methods.
P1: CFG + CDG of every code object of a generated program corpus (and of pure-Python stdlib modules
in the thorough tier) as registered by the real instrumentation.
GraphsTrace.tla: TLC evaluates WellFormedCFG / FerranteCDG / RootDependent / Deps on every
observed graph and compares with what the real code returned.
"""

from __future__ import annotations

import sys
from pathlib import Path

from harness.core import Ctx

CLAUSES = ["ComputeSucceeds", "WellFormed", "CDGSound", "CDGPairsComplete", "CDGLabelsComplete",
           "CDGNodes", "RootQuery", "DepsQuery", "RootOrBranch"]


def shape(ev: dict) -> str:
    """Input class of a cfg event, used in signatures (never in verdicts)."""
    if ev["raised"]:
        return f"raised-{ev['raised']}"
    out: dict[int, list] = {}
    for u, v, lab in ev["edges"]:
        out.setdefault(u, []).append((v, lab))
    aug = any({"T", "F", "N"} <= {lab for _, lab in o} for o in out.values())
    return "branch-with-exit-edge" if aug else "plain"


def signature(ev: dict, clause: str) -> str:
    sig = f"C06/{clause}/{ev['src']}/{shape(ev)}"
    return sig


def p2_events(ctx: Ctx) -> list[dict]:
    from harness.adapters import graphs as ad  # noqa: PLC0415

    graphs = ctx.behaviours("MC_Graphs", workers=2)
    n_small = len(graphs)
    if not ctx.quick:
        graphs += ctx.behaviours("MC_Graphs", "MC_Graphs_thorough.cfg", workers=2)
    ctx.notes["p2_exhaustive_graphs"] = len(graphs)
    ctx.notes["p2_exhaustive_upto2_blocks"] = n_small
    sims = ctx.simulate("MC_Graphs", "MC_Graphs_sim.cfg", num=1000 if ctx.quick else 20000, depth=8)
    seen = set()
    nsim = 0
    for st in sims:
        if st.get("phase") != "built":
            continue
        g = ad.norm_graph(st["g"])
        key = repr(g)
        if key in seen:
            continue
        seen.add(key)
        graphs.append(g)
        nsim += 1
    ctx.notes["p2_simulated_graphs_3to5_blocks"] = nsim
    ctx.notes["p2_simulated_rejected_not_wellformed"] = len(sims) - nsim
    evs = []
    for i, g in enumerate(graphs):
        evs.append(ad.replay_cfg(g, name=f"p2-{i}"))
    return evs


def corpus_sources(ctx: Ctx) -> list[tuple[str, str]]:
    from harness.adapters import graphs as ad  # noqa: PLC0415

    rng = ctx.rng("corpus")
    out = [("c06hand", ad.HAND), ("c06dead", ad.HAND_DEAD)]
    n = 12 if ctx.quick else 120
    for i in range(n):
        pg = ad.ProgGen(rng, depth=rng.choice([2, 2, 3]))
        out.append((f"c06gen_{i}", pg.module(rng.randint(3, 6))))
    return out


def dead_cycle_class(code) -> str:
    """Input class for signatures: does the bytecode contain a cycle of blocks that no path from
    the first block reaches (CPython keeps e.g. the handler of `try: pass` and what follows it)?"""
    import networkx as nx  # noqa: PLC0415
    from bytecode import Bytecode, ControlFlowGraph  # noqa: PLC0415

    import pynguin.instrumentation.controlflow as cf  # noqa: PLC0415
    from pynguin.instrumentation import version  # noqa: PLC0415

    try:
        blocks = ControlFlowGraph.from_bytecode(version.add_for_loop_no_yield_nodes(Bytecode.from_code(code)))
        cf.CFG._split_try_begin_blocks(blocks)  # noqa: SLF001
        edges, nodes = cf.CFG._create_nodes_and_edges(blocks)  # noqa: SLF001
        g = nx.DiGraph()
        g.add_nodes_from(nodes)
        for u, succ in edges.items():
            g.add_edges_from((u, v) for v, _ in succ)
        live = nx.descendants(g, 0) | {0}
        dead = g.subgraph(set(g.nodes) - live)
        return "dead-code-cycle" if any(True for _ in nx.simple_cycles(dead)) else "other"
    except Exception:  # noqa: BLE001
        return "unclassified"


def code_source(path: Path, code) -> str:
    lines = path.read_text().splitlines()
    last = max((ln for _, _, ln in code.co_lines() if ln), default=code.co_firstlineno)
    return "\n".join(lines[code.co_firstlineno - 1:last])[:3000]


def p1_module_events(ctx: Ctx, modname: str, srcdir: Path, src_tag: str) -> tuple[list[dict], int, str]:
    """cfg events of one module through the real import hook; when instrumentation of the module
    raises, every code object is sent on its own through the same CFG construction call so that
    the failing code object is identified."""
    from bytecode import Bytecode  # noqa: PLC0415

    import pynguin.instrumentation.controlflow as cf  # noqa: PLC0415
    from harness.adapters import graphs as ad  # noqa: PLC0415
    from pynguin.instrumentation import version  # noqa: PLC0415

    try:
        sp, _ = ad.load_module(modname, srcdir)
    except Exception as ex:  # noqa: BLE001
        err = f"{type(ex).__name__}"
    else:
        evs, skipped = ad.code_object_events(sp, src=src_tag, modname=modname)
        return evs, skipped, ""
    evs, skipped = [], 0
    code = compile((srcdir / f"{modname}.py").read_text(), str(srcdir / f"{modname}.py"), "exec")
    todo = [code]
    while todo:
        c = todo.pop()
        todo.extend(k for k in c.co_consts if hasattr(k, "co_code"))
        name = f"{modname}:{c.co_name}@{c.co_firstlineno}"
        try:
            cfg = cf.CFG.from_bytecode(version.add_for_loop_no_yield_nodes(Bytecode.from_code(c)))
        except Exception as ex:  # noqa: BLE001
            evs.append({"kind": "cfg", "src": src_tag, "name": name, "nodes": [], "edges": [],
                        "entry": 1, "exit": 2, "cdg": [], "cdgnodes": [], "root": [], "deps": [],
                        "raised": f"CFG-{type(ex).__name__}-{dead_cycle_class(c)}",
                        "source": code_source(srcdir / f"{modname}.py", c)})
            continue
        g, ids = ad.export_cfg(cfg)
        if len(g["nodes"]) > ad.NODE_CAP:
            skipped += 1
            continue
        try:
            cdg = cf.ControlDependenceGraph.compute(cfg)
            evs.append(ad.cfg_event(g, cdg, ids, src=src_tag, name=name))
        except Exception as ex:  # noqa: BLE001
            evs.append(ad.cfg_event(g, None, ids, src=src_tag, name=name, raised=type(ex).__name__))
    return evs, skipped, err


def run(ctx: Ctx) -> None:
    from harness.adapters import graphs as ad  # noqa: PLC0415

    ctx.rule = ("case = one control-flow graph: (P2) every well-formed CFG over <= 2 (quick) / <= 3 "
                "(thorough) blocks enumerated by TLC plus random ones over 3-5 blocks, each built as a "
                "real cf.CFG object; (P1) the registered CFG of every code object (<= 40 nodes) of a "
                "generated program corpus and, thorough, of pure-Python stdlib modules; non-trivial = "
                "distinct graph (nodes, labelled edges) with at least one branching node")
    ctx.assumptions = ["P2 graphs are CFG objects built around the enumerated graph (NOP blocks), not "
                       "compiled code", "code objects with more than 40 CFG nodes are skipped (counted)",
                       "trusted: the adapter's export of node / edge / label sets"]
    ctx.design("Graphs", "Graphs.cfg" if ctx.quick else "Graphs_thorough.cfg", workers=2,
               coverage_actions=["Build", "Seal", "Walk", "Finish"])
    if not ctx.quick:
        ctx.design("Graphs", "Graphs.cfg", workers=2)
        ctx.design("Graphs", "Graphs_digraph_strict.cfg", workers=2)
    hz = ctx.design("Graphs", "Graphs_hazard.cfg", expect_ok=False, workers=2)
    ctx.notes["design_hazard_digraph_labels"] = (
        "Graphs_hazard.cfg (one label per node pair, branch nodes with exit edge): TLC "
        + ("finds AlgorithmCorrect violated" if hz.violations else "finds NO violation (unexpected)"))
    if not hz.violations:
        ctx.drift.append("Graphs_hazard.cfg no longer exhibits the overwritten-label hazard")

    # one event per trace: the harness attributes one violation per clause and trace
    traces = [{"ev": [e]} for e in p2_events(ctx)]
    ctx.exhaustive = True

    work = ctx.work / "corpus"
    work.mkdir(parents=True, exist_ok=True)
    skipped = 0
    failed_modules = []
    nco = 0
    origin: dict[str, dict] = {}     # module name -> how replay() can rebuild it
    for modname, src in corpus_sources(ctx):
        origin[modname] = {"module_src": src}
        (work / f"{modname}.py").write_text(src)
        evs, sk, err = p1_module_events(ctx, modname, work, "p1gen")
        skipped += sk
        nco += len(evs)
        if err:
            failed_modules.append(f"{modname}:{err}")
        traces.extend({"ev": [e]} for e in evs)
    if not ctx.quick:
        std = ctx.work / "stdcopy"
        used = []
        for name in ad.STDLIB:
            mod = ad.stdlib_copy(name, std)
            if mod is None:
                continue
            origin[mod] = {"stdlib": name}
            evs, sk, err = p1_module_events(ctx, mod, std, "p1std")
            skipped += sk
            nco += len(evs)
            used.append(name)
            if err:
                failed_modules.append(f"{mod}:{err}")
            traces.extend({"ev": [e]} for e in evs)
        ctx.notes["stdlib_modules"] = used
    ctx.notes["p1_code_objects"] = nco
    ctx.notes["p1_skipped_over_40_nodes"] = skipped
    ctx.notes["p1_modules_failing_instrumentation"] = failed_modules

    nev = 0
    for t in traces:
        for e in t["ev"]:
            nev += 1
            if any(lab != "N" for _, _, lab in e["edges"]) or e["raised"]:
                ctx.nontriv((tuple(e["nodes"]), tuple(map(tuple, e["edges"]))))
    ctx.evaluations = nev
    verdicts = ctx.validate("GraphsTrace", traces, chunk=20000, workers=2)
    for idx, bad in sorted(verdicts.items()):
        tr = traces[idx]
        names = {c for c, _ in bad}
        for clause, _step in bad:
            ev = tr["ev"][0]
            sig = signature(ev, clause)
            if clause == "CDGLabelsComplete":
                # only a label is missing (the pair is there under the other outcome) or a whole pair
                sig += "/pair-absent" if "CDGPairsComplete" in names else "/pair-present"
            ctx.bad(clause, sig,
                    f"{ev['name']}: {len(ev['nodes'])} nodes, edges {ev['edges']} -> real CDG {ev['cdg']} "
                    f"root {ev['root']} raised {ev['raised']!r}" + (f" source:\n{ev['source']}" if ev.get("source") else ""),
                    trace={"ev": [ev]}, behaviour=dict(ev, **origin.get(ev["name"].split(":")[0], {})))
    for t in (traces[0], traces[-1]):
        ctx.sample({k: t["ev"][0][k] for k in ("src", "name", "nodes", "edges", "cdg", "root")})
    sys.stdout.flush()


def replay(ctx: Ctx, rec: dict) -> int:
    from harness.adapters import graphs as ad  # noqa: PLC0415

    ev = rec["behaviour"]
    if ev["src"] == "p2":
        ev2 = ad.replay_cfg({k: ev[k] for k in ("nodes", "edges", "entry", "exit")}, name=ev["name"])
    else:
        modname = ev["name"].split(":")[0]
        work = ctx.work / "replay"
        work.mkdir(parents=True, exist_ok=True)
        if "stdlib" in ev:
            modname = ad.stdlib_copy(ev["stdlib"], work)
        else:
            (work / f"{modname}.py").write_text(ev["module_src"])
        evs, _sk, _err = p1_module_events(ctx, modname, work, ev["src"])
        same = [e for e in evs if e["name"] == ev["name"]]
        if not same:
            print("code object not found any more:", ev["name"])
            return 2
        ev2 = same[0]
    verdicts = ctx.validate("GraphsTrace", [{"ev": [ev2]}])
    print("replayed event:", ev2)
    if verdicts:
        print(f"VIOLATION property=C06 replay=(this) clauses={verdicts[0]}")
        return 1
    print("OK")
    return 0

"""C03 Reported branch outcomes equal the branches actually taken.

Spec: PyMini.tla (big-step semantics of a Python fragment with if/while/for/break/continue/return/
raise/try-except-finally; predicts executed lines).  TLC enumerates every program of the universe x
every decision vector (MC_PyMini); each is rendered to Python, run uninstrumented under
sys.monitoring (interpreter ground truth) and instrumented through Pynguin's real import hook;
PyMiniTrace.tla is evaluated by TLC: reported outcomes per deciding line = outcomes taken (derived from BRANCH events), one predicate per conditional jump / FOR_ITER.  The
semantics' own prediction is cross-checked against the interpreter (drift only).

(2) idiom corpus (boolean operators, chained comparisons, None checks, exception matching incl.
tuples and except*, for/while with break/else, match, comprehensions, generators, ...): every
function x 8 inputs x metric combinations containing BRANCH, outcomes per deciding line = BRANCH
events, one predicate per reachable conditional jump / FOR_ITER of every code object of the module
(IdiomTrace.tla: BranchOutcomesExact, PredicatesRegistered)
"""

from harness.core import Ctx
from harness.props import C04, _idioms, _pymini


def run(ctx: Ctx) -> None:
    ctx.rule = ("case = (program, decision vector): all PyMini programs with one compound statement (if/while/for/"
                "try with bodies of <= 2 simple statements incl. break/continue/return/raise, else/except/finally "
                "clauses) x decision vectors of length 3 (quick: 3 vectors per program; thorough: all, plus 12000 "
                "nested depth-2 programs x vectors of length 4); non-trivial = distinct cases executing > 2 lines; plus (idiom function, metric combination) x 8 inputs")
    ctx.assumptions = ["ground truth = sys.monitoring LINE events of f's code object on the uninstrumented module",
                       "coverable lines = statement lines of the rendered function body (the `def` line belongs to "
                       "the import trace)"]
    # (3) callback level: over the C04 enumeration (comparison kind x value classes) the outcome Python
    # takes is recorded exactly once, and nothing is recorded when the operator raises
    C04.run_clauses(ctx, {"EvaluationRecorded", "NothingRecordedIfOpRaises"}, "C03")
    n_cb = ctx.evaluations
    n_i = _idioms.run(ctx, "C03") + n_cb  # first: the children are forked from a still small process
    _pymini.run_prop(ctx, "C03")
    ctx.evaluations += n_i


def replay(ctx: Ctx, rec: dict) -> int:
    if "idiom" in rec["behaviour"]:
        return _idioms.replay(ctx, rec, "C03")
    if "kind" in rec["behaviour"]:
        return C04.replay_clauses(ctx, rec, {"EvaluationRecorded", "NothingRecordedIfOpRaises"}, "C03")
    return _pymini.replay_prop(ctx, rec, "C03")

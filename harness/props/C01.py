"""C01 Instrumentation does not change the behaviour of the module under test.

(b) tracer callbacks only observe: the C04 case enumeration (comparison kind x value classes) on
    the real ExecutionTracer: no user operator is called that the original operation does not
    call, no one-shot iterator is consumed, the callback raises only if the operation raises
    (TracerTrace.tla: ObserveOnly, OnlyRaisesIfOpRaises);
(c) programs: every PyMini program x decision vector is run uninstrumented and instrumented
    (rotating over the metric combinations BRANCH/LINE/CHECKED; dynamic constant seeding is always
    installed by the import hook): instrumenting succeeds, return value, exception type and
    side-effect markers are identical (PyMiniTrace.tla: InstrumentationSucceeds, BehaviourPreserved).
(d) idioms: hand-written functions using Python constructs outside the PyMini grammar (comprehensions,
    slices, with, match, super(), generators, closures, str methods, walrus, ...) are run uninstrumented
    and instrumented under every metric combination, each in a forked child (an interpreter crash
    is an observation, not a machinery failure); IdiomTrace.tla: InstrumentationSucceeds,
    BehaviourPreserved.  The reference here is the interpreter, not a TLA+ semantics.
Part (a) of the design (abstract stack machine over emitted snippets) is not built; stack
neutrality is exercised indirectly: a non-neutral snippet makes import fail or changes behaviour.
"""

from harness.core import Ctx
from harness.props import C04, _idioms, _pymini


def run(ctx: Ctx) -> None:
    ctx.rule = ("(b) case = (comparison kind, value class a, value class b) as in C04; (c) case = (PyMini program, "
                "decision vector, metric combination); (d) case = (idiom function, metric combination), 8 inputs each; non-trivial = distinct cases of (c) executing > 2 lines plus "
                "cases of (b) where Python's operator does not raise plus all cases of (d)")
    ctx.assumptions = ["side effects compared = markers appended to a list, return value, exception type",
                       "arbitrary C-extension behaviour and Python outside the PyMini grammar are out of scope; the "
                       "abstract stack machine of DESIGN 4.5 is not built"]
    n_d = _idioms.run(ctx, "C01")  # first: the children are forked from a still small process
    C04.run_clauses(ctx, {"ObserveOnly", "OnlyRaisesIfOpRaises"}, "C01")
    n_b = ctx.evaluations
    _pymini.run_prop(ctx, "C01")
    ctx.evaluations += n_b + n_d


def replay(ctx: Ctx, rec: dict) -> int:
    if "idiom" in rec["behaviour"]:
        return _idioms.replay(ctx, rec, "C01")
    if "prog" in rec["behaviour"]:
        return _pymini.replay_prop(ctx, rec, "C01")
    return C04.replay(ctx, rec)

"""C20 Rendered assertions are valid Python and hold for the observed value.

Design: Literals.tla (life of a literal slot and of the assertions generated for an observed value)
over LiteralsOps.tla (value grammar, is_assertable, which assertions the observer creates, the two
renderers as abstract syntax, Eval, ~).  TLC checks the intended design (all invariants hold) and
the as-coded variant (must exhibit the deviations).  TLC enumerates the value grammar up to depth 2
x observation position (MC_Literals, Mode "assert"); every case runs through the real
RemoteAssertionTraceObserver._handle -> assertion_to_cst -> compile -> exec in the namespace of a
test file written by the real TestSuiteWriter; LiteralsTrace.tla is evaluated by TLC on the outcomes.
"""

from __future__ import annotations

import json

from harness import tlc
from harness.adapters import literals as ad
from harness.core import Ctx, MachineryError

CLAUSES = {"RenderNeverFails", "RenderedIsValidPython", "AssertionHoldsOnObservedValue"}
MODEL = {"ObserverTotal", "ObserverFollowsSpec", "OutcomeFollowsModel"}

# leaf classes / kinds to which a failing assertion is attributed, per observed exception, most specific
# first (attribution only: it makes the signature; the verdict is TLC's)
CULPRITS = {
    "ValueError": ["i_digits"],
    "CSTValidationError": ["complex", "e_str", "e_strquote", "e_flagcombo", "o_local"],
    "TypeError": ["e_flagzero"],
    "NameError": ["e_nested", "e_private", "e_foreign", "o_dict_keys", "o_generator"],
    "AttributeError": ["o_dynamic"],
}


def leaves(term: dict):
    if term["k"] == "complex":
        yield "complex"
        return
    if not term["es"]:
        yield term["c"]
    for e in term["es"]:
        yield from leaves(e)


def brief(term: dict) -> str:
    if term["k"] == "complex":
        return f"complex({term['es'][0]['c']},{term['es'][1]['c']})"
    if not term["es"] and term["c"]:
        return term["c"]
    return term["k"] + "[" + ",".join(brief(e) for e in term["es"]) + "]"


def culprit(ev: dict) -> str:
    if ev["ak"] == "float":
        if ev["oc"] == "error" and ev["nctx"] == "plain" and ev["exc"] == "NameError":
            return "export-without-pytest-import"
        return brief(ev["case"]) if ev["case"]["k"] in ("float", "obj") else "float-in:" + brief(ev["case"])
    present = set(leaves(ev["case"]))
    for c in CULPRITS.get(ev["exc"], []):
        if c in present:
            return c
    return brief(ev["case"])


def signature(ev: dict, clause: str) -> str:
    return f"C20/{clause}/{ev['ak']}/{culprit(ev)}/{ev['exc'] or ev['oc']}"


def describe(ev: dict) -> str:
    return (f"value {brief(ev['case'])} (member {ev['m']}) observed at position {ev['pos']}: {ev['ak']} assertion on "
            f"{ev['src']} in export context {ev['nctx']}: {ev['oc']}{' ' + ev['exc'] if ev['exc'] else ''}; "
            f"rendered: {ev['code'].strip()[:160]!r}")


def design(ctx: Ctx) -> None:
    ctx.design("Literals", "Literals.cfg" if ctx.quick else "Literals_thorough.cfg")
    res = tlc.run_tlc("Literals", "Literals_ascoded.cfg", workdir=ctx.work / "d-Literals-ascoded", cont=True)
    ctx._account("Literals(as coded)", res, "design-what-if")  # noqa: SLF001
    violated = sorted({v.name for v in res.violations})
    ctx.notes["as_coded_model_violates"] = violated
    # after the repairs of 2026-09-22 only A_nan and A_enum_scope remain as coded deviations
    need = {"AssertionHoldsOnObservedValue"}
    if not need <= set(violated):
        raise MachineryError(f"as-coded design variant no longer exhibits {sorted(need - set(violated))}")


def observe(ctx: Ctx) -> tuple[list[dict], list[dict]]:
    cases = ctx.behaviours("MC_Literals", "MC_Literals_assert.cfg" if ctx.quick else "MC_Literals_assert_thorough.cfg")
    cases.sort(key=lambda c: json.dumps(c, sort_keys=True))
    # one trace per observed event (ctx.validate reports one violation per clause and trace)
    owners, traces = [], []
    for c in cases:
        for e in ad.check_value(c["v"], c["pos"], c["m"], ctx.seed, ctx.work):
            owners.append(c)
            traces.append({"ev": [e]})
    ctx.notes["cases"] = len(cases)
    return owners, traces


def run(ctx: Ctx) -> None:
    ctx.level = "other"
    ctx.rule = ("case = (value term, observation position, member index) enumerated by TLC from MC_Literals: the "
                "value grammar of LiteralsOps up to depth 2 (all leaf classes alone and as the single element / key / "
                "value of every container kind, pairs and nesting over a core of classes) x {bound variable, field "
                "of a watched object, module global, class-static field}; every assertion the real observer creates "
                "is rendered and executed in two export namespaces (with / without the writer's pytest import); "
                "non-trivial = distinct (value, position, assertion kind, source, namespace) for which an assertion "
                "was created")
    ctx.assumptions = ["one canonical representative per leaf class (thorough: plus 2 seeded random members per class)",
                       "the namespace of the exported file is obtained by executing the module written by the real "
                       "TestSuiteWriter for a one-test suite (format_with_black=False); it is assumed to depend on "
                       "the assertion kind and on whether the seed fixture is emitted, not on the asserted value",
                       "float_precision is the default 0.01 (the configured value is not passed to the renderer)"]
    ctx.notes["explanation"] = (
        "Case partition, not an exhaustive check: the value domain is unbounded, so TLC enumerates a partition "
        "(classes of ints/floats/complex/str/bytes/enum members/objects, containers up to depth 2) and one concrete "
        "representative per class (plus random members in the thorough tier) is run through the real observer and "
        "renderer; TLC evaluates RenderNeverFails / RenderedIsValidPython / AssertionHoldsOnObservedValue on the "
        "observed outcomes.  Values for which Pynguin creates no assertion are outside the quantifier.  No claim "
        "for values outside the listed classes.")
    design(ctx)
    cases, traces = observe(ctx)
    ctx.exhaustive = False
    n_events = 0
    for t in traces:
        for e in t["ev"]:
            if e["op"] == "assert":
                n_events += 1
                ctx.nontriv((json.dumps(e["case"], sort_keys=True), e["pos"], e["m"], e["ak"], e["src"], e["nctx"]))
    ctx.evaluations = n_events
    ctx.notes["cases_without_assertion"] = sum(1 for t in traces if t["ev"][0]["op"] == "noassert")
    verdicts = ctx.validate("LiteralsTrace", traces)
    seen_drift = set()
    for idx, bad in sorted(verdicts.items()):
        for clause, step in bad:
            ev = traces[idx]["ev"][step - 1]
            if clause in CLAUSES:
                ctx.bad(clause, signature(ev, clause), describe(ev), trace={"ev": [ev]}, behaviour=cases[idx])
            elif clause in MODEL:
                key = (clause, brief(ev["case"]), ev["pos"])
                if key not in seen_drift:
                    seen_drift.add(key)
                    ctx.drift.append(f"{clause}: {brief(ev['case'])} at {ev['pos']}: observed "
                                     f"{ev.get('akinds')} {ev.get('ak', '')} {ev.get('oc', '')} {ev.get('exc', '')}")
    picks = {}
    for t in traces:
        for e in t["ev"]:
            if e["op"] == "assert" and e["oc"] != "pass":
                picks.setdefault((e["ak"], e["oc"], e["exc"]), e)
    for e in list(picks.values())[:4]:
        ctx.sample({k: e[k] for k in ("case", "pos", "ak", "src", "nctx", "oc", "exc", "code")})
    ctx.sample(traces[0]["ev"][0])
    ctx.notes["export_preamble_plain"] = ad.export_namespace(ctx.work, "plain", "float", ctx.seed)["__export_src__"][-400:]
    # histories: the value asserted after statement p must be the value observed after statement p, also
    # when a later statement changes a nested container of the same object in place.  TLC-enumerated test
    # cases over harness/sut/pp_sut.py containing note() (self.log[0].append(...)) run through the real
    # assertion generation and export; the exported functions are executed (PipelineTrace.tla TestVerdicts).
    from harness.props import _pipeline as P  # noqa: PLC0415

    ctx.evaluations = n_events + P.replay_progs(ctx, "C20", {"TestVerdicts"}, only_kinds={"note"})


def replay(ctx: Ctx, rec: dict) -> int:
    if "replay" in rec["behaviour"]:
        from harness.props import _pipeline as P  # noqa: PLC0415

        return P.replay_one(ctx, rec, "C20", {"TestVerdicts"})
    c = rec["behaviour"]
    tr = {"ev": ad.check_value(c["v"], c["pos"], c["m"], rec.get("seed", ctx.seed), ctx.work)}
    for e in tr["ev"]:
        print(describe(e) if e["op"] == "assert" else e)
    v = ctx.validate("LiteralsTrace", [tr])
    bad = [c for c, _ in v.get(0, []) if c in CLAUSES]
    if bad:
        print(f"VIOLATION property=C20 replay=(this) clauses={bad}")
        return 1
    print("OK")
    return 0

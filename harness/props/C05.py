"""C05 Tracing keeps recording after an exception inside traced code.

Design: Tracer.tla (enabled flag restored on the error path of a callback; lines keep being
recorded).  P2 (a) callback level: the C04 case enumeration on the real ExecutionTracer -- after
every callback, raising or not, the flag is restored and a following line visit is recorded;
(b) test-case level: TLC enumerates statement sequences (MC_TracerProg) in which traced code raises
in 12 different ways and the SUT catches it (or not); they run on the real TestCaseExecutor and
TracerProgTrace.tla is evaluated on the observed flags and coverage;
(c) idiom corpus (exceptions raised by comparisons, truthiness, membership, iteration, hashing,
properties, __getattr__ hooks, generators, with, except*, ... and caught inside the subject) under
BRANCH+LINE and BRANCH+LINE+CHECKED: lines and branch outcomes reported per execution equal the
interpreter's (sys.monitoring), the tracer is enabled afterwards (IdiomTrace.tla).
"""

from __future__ import annotations

import logging

from harness.core import Ctx, parallel_map
from harness.props import C04, _idioms

CALLBACK_CLAUSES = {"EnabledRestored", "StillRecording"}


def _run(args):
    from harness.adapters import tracer_prog as tp  # noqa: PLC0415

    logging.disable(logging.CRITICAL)
    return tp.run_program(args)


def run(ctx: Ctx) -> None:
    ctx.rule = ("(a) every C04 case (comparison kind x value classes) as a single tracer callback; (b) test "
                "cases = statement sequences (raise kind x caught or not) enumerated by TLC from MC_TracerProg; "
                "non-trivial = case in which traced code raises")
    ctx.assumptions = ["enabled flag read in the executing thread at statement boundaries by wrapping the "
                       "executor's before/after statement hooks at run time",
                       "lines after the try/except of a statement are executed unconditionally by construction"]
    n_idiom = _idioms.run(ctx, "C05")  # (c), first: the children are forked from a still small process
    # (a) callback level, shares the C04 machinery (Tracer design model is checked there too)
    C04.run_clauses(ctx, CALLBACK_CLAUSES, "C05")
    r = ctx.design("Tracer", "Tracer_asis.cfg", expect_ok=False)
    ctx.notes["design_without_finally_violates"] = sorted({v.name for v in r.violations})
    n_cb = ctx.evaluations
    # (b) test-case level
    progs = ctx.behaviours("MC_TracerProg", "MC_TracerProg.cfg" if ctx.quick else "MC_TracerProg_thorough.cfg")
    if not ctx.quick and len(progs) > 4000:
        rng = ctx.rng("progs")
        rng.shuffle(progs)
        progs = progs[:4000]
        ctx.exhaustive = False
    jobs = [(p, str(ctx.work / "prog" / f"w{n % 32}"), f"{ctx.seed}x{n}") for n, p in enumerate(progs)]
    results = parallel_map(_run, jobs, procs=8, chunksize=8)
    ctx.evaluations = n_cb + len(results) + n_idiom
    for p in progs:
        if any(s["k"] != "none" for s in p["prog"]):
            ctx.nontriv(("prog", str(p["prog"])))
    verdicts = ctx.validate("TracerProgTrace", results)
    for idx, bad in sorted(verdicts.items()):
        for clause, step in bad:
            ev = results[idx]["ev"][step - 1]
            ctx.bad(clause, f"C05/{clause}/{ev['k']}/{'caught' if ev['caught'] else 'escapes'}",
                    f"program {progs[idx]['prog']} statement {step}: {ev}", trace=results[idx], behaviour=progs[idx])
    ctx.notes["programs"] = len(progs)
    for p, r in list(zip(progs, results))[5:7]:
        ctx.sample({"program": p["prog"], "observed": [{k: e[k] for k in ("k", "caught", "en_start", "en_end",
                                                                         "exc_reported", "exc_type")} for e in r["ev"]]})


def replay(ctx: Ctx, rec: dict) -> int:
    beh = rec["behaviour"]
    if "idiom" in beh:
        return _idioms.replay(ctx, rec, "C05")
    if "prog" in beh:
        r = _run((beh, str(ctx.work / "prog"), "replay"))
        print(r)
        v = ctx.validate("TracerProgTrace", [r])
        bad = [c for c, _ in v.get(0, [])]
    else:
        from harness.adapters import tracer_values as tv  # noqa: PLC0415

        e = tv.evaluate(beh)
        print(C04.describe(e))
        v = ctx.validate("TracerTrace", [{"ev": [e]}])
        bad = [c for c, _ in v.get(0, []) if c in CALLBACK_CLAUSES]
    if bad:
        print(f"VIOLATION property=C05 replay=(this) clauses={bad}")
        return 1
    print("OK")
    return 0

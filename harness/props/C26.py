"""C26 Generator selection offers only type-compatible generators.

Design: TypeSystem.tla -- OfferedCompatible, ProvidersAgree on the declarative relations for
every hierarchy within the bounds, and the cache machine (AddSubclassEdge, AddGenerator,
UpdateReturnType, Query with an lru_cache-like memo) with invariant CacheCoherent, for both
providers; with the known deviations of the code as it is (after the fixes bee086b..1991def:
covariant type arguments in the distance, no distance from None / tuples to Any, empty offer
for primitive requests, provider caches not cleared by add_subclass_edge) TLC must find the
counterexamples.
P2 static: the generated modules of C25 (one generator per universe type) are analysed by the
real generate_test_cluster once per provider; for every requested type the generator sets
offered by GeneratorProvider and RandomGeneratorProvider are recorded and TypeSystemTrace.tla
evaluates OfferedCompatible (real and declarative is_maybe_subtype) and ProvidersAgree.
P2 histories: every history of MC_TypeSystem (queries interleaved with add_subclass_edge /
add_generator / update_return_type) and random long ones are replayed on a real
ModuleTestCluster under both providers; TypeSystemHistTrace.tla follows the log with the cache
machine and evaluates `cached answer at the end = recomputation on a fresh cluster` and, on every
offered set along the history, `every offered generator generates NOW a type that may be a subtype
of the requested type` (OfferedCompatibleHist; generated_type() and the generator table are
recorded after every call, Drift_Table compares the table with the model's).  Return-type family
(MC_TypeSystemRet): add_generator of the unannotated function, then update_return_type calls that
narrow (Any -> {c}) or widen (T -> T | c) a return type interleaved with offered-set queries for
types compatible with the old type only / the new type only / both, under both providers.
"""

from __future__ import annotations

import json

from harness.adapters import typesystem as ad
from harness.core import Ctx, parallel_map
from harness.props import C25 as base
from harness.tlc import MachineryError

PROP = "C26"
TRACE_CFG = "TypeSystemTrace_C26.cfg"


# ----------------------------------------------------------------- reporting helpers (no verdict)
def witness(ev: dict, clause: str) -> tuple[str, str]:
    ut, maybe = ev["types"], ev["maybe"]
    gens = ev["gens"]
    law, _, cls = clause.partition("_")
    if law == "Total":
        return "exception", "; ".join(ev["raised"][:3])
    n = range(len(ut))
    if law.startswith("OfferedCompatible"):   # (the Spec variant is located with the real matrix too)
        key = "offR" if cls == "Random" else "offG"
        model = base._Model(ev)               # reporting only: which deviation explains the pair
        pairs = [(i, g, gens[g - 1]["ret"] - 1) for i in n for g in ev[key][i]
                 if not maybe[gens[g - 1]["ret"] - 1][i]]
        pick = next((p for p in pairs if cls == "Random" or
                     model.known_generic_args_only(ut[p[0]], ut[p[2]]) == (cls == "KnownGenericArgsOnly")),
                    pairs[0] if pairs else None)
        if pick:
            i, g, r = pick
            return (f"{base.shape(ut[i])}<-{base.shape(ut[r])}",
                    f"{key[-1]} provider offers {gens[g - 1]['name']} -> {base.tstr(ut[r])} for requested "
                    f"{base.tstr(ut[i])} although not is_maybe_subtype")
    if law == "ProvidersAgree":
        for i in n:
            a, b = set(ev["offG"][i]), set(ev["offR"][i])
            if a != b:
                prim = ut[i]["k"] == "inst" and ut[i]["c"] in ("int", "str", "bool", "float", "complex", "bytes")
                if cls == "KnownPrimitiveRequestEmpty" and not (prim and not a):
                    continue
                if cls != "KnownPrimitiveRequestEmpty" and prim and not a:
                    continue
                only_g = [gens[g - 1]["name"] + "->" + base.tstr(ut[gens[g - 1]["ret"] - 1]) for g in sorted(a - b)]
                only_r = [gens[g - 1]["name"] + "->" + base.tstr(ut[gens[g - 1]["ret"] - 1]) for g in sorted(b - a)]
                if cls == "KnownUndefinedForNoneOrTuple" and not only_r:
                    continue
                if cls == "KnownGenericArgsOnly" and not only_g:
                    continue
                return (base.shape(ut[i]),
                        f"requested {base.tstr(ut[i])}: only GeneratorProvider offers {only_g[:4]}, only "
                        f"RandomGeneratorProvider offers {only_r[:4]}")
    return "unlocated", "(witness not located by the reporting helper)"


def signature(ev: dict, clause: str) -> tuple[str, str]:
    law, _, cls = clause.partition("_")
    sh, detail = witness(ev, clause)
    if cls.startswith("Known"):
        return f"{PROP}/{law}/{cls[len('Known'):]}", detail
    if cls == "Random":
        return f"{PROP}/{law}/RandomGeneratorProvider/{sh}", detail
    if law.startswith("OfferedCompatible"):
        return f"{PROP}/{law}/GeneratorProvider/{sh}", detail
    return f"{PROP}/{law}/{sh}", detail


def hist_signature(tr: dict, clause: str, step: int = -1) -> tuple[str, str]:
    law, _, cls = clause.partition("_")
    if law == "OfferedCompatibleHist":
        return offered_hist_signature(tr, step)
    fin = tr["ev"][-1]
    stale = [a for a in fin["asked"] if a["cached"] != a["fresh"]]
    log = [e["k"] + (":" + e["key"]["q"] if e["k"] == "query" else "") for e in tr["ev"][1:-1]]
    detail = f"provider {tr['ev'][0]['prov']} history {log}: " + "; ".join(
        f"{a['key']['q']}({a['key']['l']['c']},{a['key']['r']['c']}) cached {a['cached']} recomputed {a['fresh']}"
        for a in stale[:3])
    if cls.startswith("Known"):
        return f"{PROP}/{law}/{cls[len('Known'):]}", detail
    kinds = sorted({a["key"]["q"] for a in stale}) or ["unlocated"]
    return f"{PROP}/{law}/{kinds[0]}", detail


def offered_hist_signature(tr: dict, step: int) -> tuple[str, str]:
    """Signature = the kind of update that precedes the offending offered set; the detail lists the
    offered generators with their registrations (descriptive, TLC judged)."""
    evs = tr["ev"]
    e = evs[step - 1] if 1 <= step <= len(evs) else evs[-1]
    before = [x["k"] for x in evs[:evs.index(e)] if x["k"] in ("add_edge", "add_gen", "update_ret")]
    log = [x["k"] + (":" + x["key"]["q"] + "(" + x["key"]["l"]["c"] + ")" if x["k"] == "query" else
                     ":" + x.get("g", x.get("x", "")) + ("," + x.get("c", x.get("y", "")) if x["k"] != "add_gen" else ""))
           for x in evs[1:-1]]
    if e["k"] == "query":
        sets = [(e["key"]["l"], e["ans"]["s"])]
    else:
        sets = [(a["key"]["l"], a["cached"]["s"]) for a in e["asked"] if a["key"]["q"] == "offered"]
    regs = {}
    for r in e["tab"]:
        regs.setdefault(r["g"], []).append(r)
    parts = []
    for req, offered in sets:
        odd = [f"{g} registered under {[base.tstr(r['key']) for r in regs.get(g, [])]} generates "
               f"{base.tstr(regs[g][0]['ret']) if g in regs else '?'}"
               for g in offered if g not in regs or len(regs[g]) != 1 or regs[g][0]["key"] != regs[g][0]["ret"]]
        parts.append(f"requested {base.tstr(req)}: offered {offered}" + (f" ({'; '.join(odd)})" if odd else ""))
    detail = (f"provider {evs[0]['prov']} history {log}, step {step} ({e['k']}): " + " | ".join(parts[:4])
              + ": an offered generator generates a type that cannot be a subtype of the requested type")
    return f"{PROP}/OfferedCompatibleHist/after-{before[-1] if before else 'analysis'}", detail


# --------------------------------------------------------------------------------- histories
def history_cases(ctx: Ctx) -> list[dict]:
    cases = []
    if ctx.quick:
        plan = [("MC_TypeSystem_hist.cfg", "histories_exhaustive_2_classes_depth2")]
        n_sim, depth = 30, 10
    else:
        plan = [("MC_TypeSystem_hist.cfg", "histories_exhaustive_2_classes_depth2"),
                ("MC_TypeSystem_hist_n3.cfg", "histories_exhaustive_3_classes_depth2")]
        n_sim, depth = 500, 12
    for cfg, note in plan:
        got = ctx.behaviours("MC_TypeSystem", cfg, timeout=6000)
        ctx.notes[note] = len(got)
        cases += got
    # return-type family: add_generator(xa -> Any), then update_return_type (narrowing Any -> {c},
    # widening T -> T | c) interleaved with offered-set queries; replayed under BOTH providers
    ret_plan = [("MC_TypeSystemRet.cfg", "histories_return_type_family_2_classes_depth4")]
    if not ctx.quick:
        ret_plan += [("MC_TypeSystemRet_n3.cfg", "histories_return_type_family_3_classes_depth4"),
                     ("MC_TypeSystemRet_edges.cfg", "histories_return_type_family_with_edges_2_classes_depth5")]
    for cfg, note in ret_plan:
        got = ctx.behaviours("MC_TypeSystemRet", cfg, timeout=6000)
        ctx.notes[note] = len(got)
        for c in got:
            c["family"] = "ret"
        cases += got
    sims = ctx.simulate("MC_TypeSystem", "MC_TypeSystem_hist_sim.cfg", num=n_sim, depth=depth, timeout=6000)
    k = 0
    for st in sims:
        if st.get("out"):
            c = json.loads(st["out"])
            if len(c["hier"]) == len(c["user"]) and len(c["hist"]) >= 3:
                cases.append(c)
                k += 1
    ctx.notes["histories_simulated_3_classes"] = k
    return cases


def run_histories(ctx: Ctx, cases: list[dict] | None = None) -> None:
    if cases is None:
        cases = history_cases(ctx)
    d = ctx.work / "hmods"
    d.mkdir(parents=True, exist_ok=True)
    # thorough: every history under both providers; quick: providers alternate over the histories
    jobs = [(c, str(d), f"tsh_{i}_{p.lower()}", p) for i, c in enumerate(cases) for p in ("G", "R")
            if not ctx.quick or c.get("family") == "ret" or (i % 2 == 0) == (p == "G")]
    ctx.rng("order").shuffle(jobs)            # long and short histories spread evenly over the TLC chunks
    traces = parallel_map(ad.replay_history, jobs, procs=8, chunksize=16)
    ctx.notes["history_traces"] = len(traces)
    for t in traces:
        for e in t["ev"][1:-1]:
            if e["k"] == "query":
                ctx.nontriv(hash(("q", t["ev"][0]["prov"], json.dumps(e, sort_keys=True),
                                  tuple(x["k"] for x in t["ev"][1:-1]))))
        ctx.evaluations += len(t["ev"][-1]["asked"]) + sum(
            1 for e in t["ev"] if e["k"] == "query" and e["key"]["q"] == "offered")
    chunk = max(200, -(-len(traces) // 3))
    verdicts = ctx.validate("TypeSystemHistTrace", traces, chunk=chunk, workers=4, timeout=6000)
    for idx, bad in sorted(verdicts.items()):
        tr = traces[idx]
        for clause, step in bad:
            if clause.startswith("Drift_"):
                ctx.drift.append(f"{clause} at step {step} of history "
                                 f"{[(a['op'], a['x'], a['y'], a['key']['q']) for a in jobs[idx][0]['hist']]} "
                                 f"provider {jobs[idx][3]}")
                continue
            s, detail = hist_signature(tr, clause, step)
            ctx.bad(clause, s, detail, trace=tr, behaviour={"kind": "history", "case": jobs[idx][0],
                                                            "prov": jobs[idx][3]})
    for t in traces[:1] + traces[-1:]:
        ctx.sample(t["ev"])
    for line in sorted({d for d in ctx.drift if d.startswith("Drift_") and "history" in d})[:6]:
        print(f"DRIFT (no verdict): {line[:300]}")


def run(ctx: Ctx) -> None:
    ctx.rule = ("static case = one class hierarchy (as C25) rendered as a module with one generator "
                "f_i() -> T_i per universe type, analysed by the real generate_test_cluster once per "
                "provider; evaluation = one (requested type, provider) offered set; non-trivial = distinct "
                "(hierarchy, requested type) with a non-empty offered set.  history case = one history of "
                "add_subclass_edge / add_generator / update_return_type / queries (all histories of depth "
                "2 or 3 from MC_TypeSystem + random histories of depth <= 8 + the return-type family of "
                "MC_TypeSystemRet: add_generator of the unannotated function, update_return_type narrowing / "
                "widening a return type, offered-set queries) x provider; evaluation = one asked query "
                "compared cached vs recomputed, one offered set judged against generated_type() of its "
                "generators; non-trivial = distinct (history prefix, query)")
    ctx.assumptions = ["offered set = provider._get_generators_for(T) (the mechanism named by the property); "
                       "select_generator_for is checked to pick from it",
                       "update_return_type is applied to function generators only (constructors keep their "
                       "generated type)",
                       "histories use plain instance types over the analysed classes; edges keep the graph acyclic"]
    # design: static laws + cache machine, both providers; deviation models must fail as expected
    from concurrent.futures import ThreadPoolExecutor
    base.make_threadsafe(ctx)
    _ = ctx.work            # create the scratch directory before any thread needs it
    pool = ThreadPoolExecutor(max_workers=2)
    suffix = "" if ctx.quick else "_thorough"
    main_cfg = "TypeSystem.cfg" if ctx.quick else "TypeSystem_thorough.cfg"
    design = pool.submit(base.design_runs, ctx,
                         [main_cfg, "TypeSystem_dev_static.cfg", f"TypeSystem_cache{suffix}.cfg",
                          f"TypeSystem_cacheR{suffix}.cfg", "TypeSystem_dev_cache.cfg"],
                         ("TypeSystem_dev_cache.cfg",))       # overlaps with the replays below
    # static part
    jobs = base.hierarchy_cases(ctx)
    hist_cases = pool.submit(history_cases, ctx)   # TLC enumerates the histories while the static part runs
    if ctx.quick:      # C25 quick runs all of them; here every second hierarchy keeps the tier within budget
        jobs = jobs[::2]
    else:              # all 3-class hierarchies, every second of the sampled / simulated larger ones
        k = ctx.notes["hierarchies_exhaustive_3_classes"]
        jobs = jobs[:k] + jobs[k::2]
    traces, behs = base.run_cases(ctx, jobs)
    ctx.exhaustive = True
    for t in traces:
        ev = t["ev"][0]
        hk = tuple(sorted(tuple(e) for e in ev["edges"]))
        ctx.evaluations += 2 * len(ev["types"])
        for i, t_i in enumerate(ev["types"]):
            if ev["offG"][i] or ev["offR"][i]:
                ctx.nontriv(hash((hk, ad.tkey(t_i))))
    ctx.notes["hierarchies_checked"] = len(traces)
    base.judge(ctx, traces, behs, TRACE_CFG, signature)
    ev = traces[0]["ev"][0]
    ctx.sample({"user_edges": [e for e in ev["edges"] if e[1] in ev["user"]],
                "requested": [base.tstr(x) for x in ev["types"][:12]],
                "offered_GeneratorProvider": [[ev["gens"][g - 1]["name"] for g in row][:8] for row in ev["offG"][:12]],
                "offered_RandomGeneratorProvider": [[ev["gens"][g - 1]["name"] for g in row][:8]
                                                    for row in ev["offR"][:12]]})
    # histories
    run_histories(ctx, hist_cases.result())
    res = design.result()
    pool.shutdown()
    base.check_deviation_model(ctx, res["TypeSystem_dev_static.cfg"])
    got = {v.name for v in res["TypeSystem_dev_cache.cfg"].violations}
    if got != {"CacheCoherent"}:
        raise MachineryError("the cache machine with NoProviderClearOnAddEdge must violate "
                             f"CacheCoherent, TLC reported {sorted(got)}")


def replay(ctx: Ctx, rec: dict) -> int:
    b = rec["behaviour"]
    d = ctx.work / "mods"
    d.mkdir(parents=True, exist_ok=True)
    if b.get("kind") == "history":
        tr = ad.replay_history((b["case"], str(d), "tsh_replay", b["prov"]))
        verdicts = ctx.validate("TypeSystemHistTrace", [tr])
        steps = {c: st for c, st in verdicts.get(0, [])}
        bad = [c for c in steps if not c.startswith("Drift_")]
        sigs = [hist_signature(tr, c, steps[c])[0] for c in bad]
        print(json.dumps(tr)[:3000])
    else:
        tr = ad.analyse_static((b["case"], str(d), b["mod"], b.get("seed", 0), b["n_random"]))
        verdicts = ctx.validate("TypeSystemTrace", [tr], cfg=TRACE_CFG)
        bad = [c for c, _ in verdicts.get(0, []) if not c.startswith("Drift_")]
        sigs = [signature(tr["ev"][0], c)[0] for c in bad]
    for c, s in zip(bad, sigs):
        print(c, "->", s)
    if rec["signature"] in sigs:
        print(f"VIOLATION property={PROP} replay=(this) clauses={bad}")
        return 1
    print("OK (signature not reproduced)" if bad else "OK")
    return 0

"""C33 Worker crashes never hang Pynguin and restarts are bounded.

Design: MasterWorker.tla (restart protocol incl. liveness `Returns` under fairness).
P2: fault plans enumerated by TLC (MC_MasterWorker) are injected into the REAL
run_pynguin_with_master_worker (workers are forked, so the harness' wrappers around the
generator phases are inherited; deaths are os._exit / SIGKILL, failures are exceptions); the
master's clock is virtualised so that the wall time it observes is the plan's.  A few plans run
on the real clock.  P1: every run's master/worker events are validated by MasterWorkerTrace.tla.
"""

from __future__ import annotations

import json
from concurrent.futures import ThreadPoolExecutor

from harness.adapters import masterworker as ad
from harness.core import Ctx, MachineryError

CORE = [
    {"init_time": 3, "plan": []},
    {"init_time": -1, "plan": [{"inc": 1, "phase": "search", "mode": "exit", "elapsed10": 10}]},
    {"init_time": 1, "plan": [{"inc": 1, "phase": "import", "mode": "kill", "elapsed10": 15}]},
    {"init_time": 3, "plan": [{"inc": 1, "phase": "search", "mode": "raise", "elapsed10": 0}]},
    {"init_time": 4, "plan": [{"inc": 1, "phase": "assert", "mode": "exit", "elapsed10": 5},
                              {"inc": 2, "phase": "search", "mode": "kill", "elapsed10": 5},
                              {"inc": 3, "phase": "export", "mode": "exit", "elapsed10": 5}]},
    # real clock (elapsed10 = 0): the master measures the time itself
    {"init_time": 6, "plan": [{"inc": 1, "phase": "minimize", "mode": "exit", "elapsed10": 0}]},
    {"init_time": 2, "plan": [{"inc": 1, "phase": "final", "mode": "kill", "elapsed10": 0},
                              {"inc": 2, "phase": "import", "mode": "exit", "elapsed10": 0}]},
]


def pick(ctx: Ctx, behs: list[dict], n: int) -> list[dict]:
    rng = ctx.rng("plans")
    buckets: dict[tuple, list[dict]] = {}
    for b in behs:
        key = (b["init_time"] > 0, len(b["plan"]), b["plan"][0]["phase"] if b["plan"] else "-",
               b["plan"][-1]["mode"] if b["plan"] else "-")
        buckets.setdefault(key, []).append(b)
    keys = sorted(buckets)
    rng.shuffle(keys)
    out = []
    i = 0
    while len(out) < n and keys:
        k = keys[i % len(keys)]
        lst = buckets[k]
        out.append(lst.pop(rng.randrange(len(lst))))
        if not lst:
            keys.remove(k)
        else:
            i += 1
    return out


def signature(clause: str, tr: dict, scen: dict) -> str:
    phases = "+".join(f"{p['phase']}:{p['mode']}" for p in scen["plan"]) or "no-fault"
    return f"C33/{clause}/init={scen['init_time']}/{phases}"


def run(ctx: Ctx) -> None:
    ctx.rule = ("case = fault plan (initial search time, per worker incarnation the phase at which it "
                "dies by os._exit/SIGKILL or raises, wall time the master observes) enumerated by TLC from "
                "MC_MasterWorker, stratified sample + fixed core incl. real-clock plans; non-trivial = "
                "distinct plan with at least one injected fault")
    ctx.assumptions = ["a crashed worker consumed wall time > 0 (checked on every recorded restart)",
                       "worker death modelled as os._exit(87) / SIGKILL of the worker process; "
                       "grandchildren of the worker are not killed by the harness",
                       "iteration budget (2) set besides the search-time budget so each run is short"]
    ctx.design("MasterWorker", deadlock=False,
               coverage_actions=["WorkerDies", "WorkerRaises", "MasterRecvEOF", "MasterRecvResult"])
    behs = ctx.behaviours("MC_MasterWorker")
    ctx.notes["plans_in_model"] = len(behs)
    n = 9 if ctx.quick else 120
    scens = [dict(c, iters=2) for c in CORE]
    for b in pick(ctx, behs, n):
        scens.append({"init_time": b["init_time"], "iters": 2, "plan": b["plan"], "expect": b["expect"]})
    timeout = 240
    jobs = [(s, str(ctx.work / f"mw{i}"), timeout) for i, s in enumerate(scens)]
    with ThreadPoolExecutor(max_workers=6) as ex:
        results = list(ex.map(ad.run_scenario, jobs))
    traces = []
    for r in results:
        if not r["raw"]:
            raise MachineryError("master/worker runner produced no events:\n" + r["stderr_tail"])
        traces.append(ad.project(r))
    ctx.evaluations = len(traces)
    for s, t, r in zip(scens, traces, results):
        if s["plan"]:
            ctx.nontriv(json.dumps([s["init_time"], s["plan"]], sort_keys=True))
        exp = s.get("expect")
        if exp and all(p["elapsed10"] for p in s["plan"]):
            got = t["ev"][-1]
            want_rc0 = exp["outcome"] == "OK"
            if (got["rc"] == 0) != want_rc0 or got["restarts"] != exp["restarts"]:
                ctx.drift.append(f"plan {s['plan']} init={s['init_time']}: model expects {exp}, "
                                 f"real rc={got['rc']} restarts={got['restarts']}")
    ctx.notes["wall_per_run_s"] = [r["wall_s"] for r in results]
    verdicts = ctx.validate("MasterWorkerTrace", traces)
    for idx, bad in sorted(verdicts.items()):
        for clause, step in bad:
            if clause.startswith("Conform"):
                ctx.drift.append(f"{clause} false in run {scens[idx]} at step {step}")
                continue
            ctx.bad(clause, signature(clause, traces[idx], scens[idx]),
                    f"run of plan {scens[idx]} violates {clause} at step {step}: "
                    f"{traces[idx]['ev'][max(0, step - 1)]}",
                    trace=traces[idx], behaviour=scens[idx])
    for s, t in list(zip(scens, traces))[3:6]:
        ctx.sample({"plan": s, "states": [{k: e[k] for k in ('ev', 'st', 'restarts', 'inc', 'delivered', 'rc')}
                                          for e in t["ev"]]})
    ctx.notes["faults_injected"] = sum(len(s["plan"]) for s in scens)


def replay(ctx: Ctx, rec: dict) -> int:
    r = ad.run_scenario((rec["behaviour"], str(ctx.work / "mw-replay"), 240))
    tr = ad.project(r)
    print(json.dumps(tr, indent=1))
    v = ctx.validate("MasterWorkerTrace", [tr])
    bad = [c for c, _ in v.get(0, []) if not c.startswith("Conform")]
    if bad:
        print(f"VIOLATION property=C33 replay=(this) clauses={bad}")
        return 1
    print("OK")
    return 0

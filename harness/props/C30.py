"""C30 Test executions are isolated and restore process state.

Design: ProcState.tla (streams, descriptors, logging switch, random streams, hidden SUT state; the
executor's Enter/Exit bracket), TLC exhaustive; the variant of an executor that neither restores
logging nor protects the shared null file must violate the property.
P2: histories of test cases enumerated by TLC (MC_ProcState) run on the real TestCaseExecutor, each
history in a freshly forked process; after every execute() the process state is projected and the
result compared with the result of the same test case executed alone (ProcStateTrace.tla).
"""

from __future__ import annotations

import json
import multiprocessing as mp

from harness.core import Ctx, MachineryError


def _child(conn, args):
    import logging  # noqa: PLC0415

    from harness.adapters import procstate  # noqa: PLC0415

    try:
        conn.send(procstate.run_history(args))
    except BaseException as ex:  # noqa: BLE001
        conn.send({"error": f"{type(ex).__name__}: {ex}"})
    finally:
        conn.close()
        logging.shutdown()


def fresh(args) -> dict:
    ctxm = mp.get_context("fork")
    a, b = ctxm.Pipe(duplex=False)
    p = ctxm.Process(target=_child, args=(b, args))
    p.start()
    b.close()
    try:
        out = a.recv() if a.poll(300) else {"error": "history did not finish in 300 s"}
    except EOFError:
        out = {"error": "child died"}
    p.join(5)
    if p.is_alive():
        p.kill()
    return out


def _fresh_many(jobs):
    from concurrent.futures import ThreadPoolExecutor  # noqa: PLC0415

    with ThreadPoolExecutor(max_workers=6) as ex:
        results = list(ex.map(fresh, jobs))
    # a terminating test case that timed out (3 s budget, the machine may be heavily loaded) is run again
    # on its own with a budget of 20 s; only a timeout that repeats there is an observation
    for n, (job, r) in enumerate(zip(jobs, results)):
        if "ev" in r and any(e["timeout"] for e in r["ev"]):
            again = fresh((*job[:3], 20))
            if "ev" in again:
                results[n] = again
    return results


def run(ctx: Ctx) -> None:
    ctx.rule = ("case = history of test cases (each a sequence of SUT steps print/raise/close stdout/close fd 1/"
                "logging.disable/random.seed/random draw/mutate module global) enumerated by TLC from "
                "MC_ProcState; non-trivial = history in which some test case touches process state")
    ctx.assumptions = ["each history runs in a freshly forked process; 'as before' = identity of sys.stdout/"
                       "sys.stderr, fstat of fds 0-2, logging.root.manager.disable, randomness.RNG.getstate()",
                       "result of a test case = timeout flag, exception types by position, covered lines, "
                       "predicate outcomes; test cases that touch the SUT's module global are hidden state and "
                       "exempt from order independence"]
    # import everything the forked children need once, in the parent
    import pynguin.generator  # noqa: F401, PLC0415
    from harness.adapters import procstate, pyn  # noqa: F401, PLC0415

    ctx.design("ProcState")
    r = ctx.design("ProcState", "ProcState_asis.cfg", expect_ok=False)
    ctx.notes["design_without_restore_violates"] = sorted({v.name for v in r.violations})
    behs = ctx.behaviours("MC_ProcState")
    if not ctx.quick:
        behs += ctx.behaviours("MC_ProcState", "MC_ProcState_two.cfg")
    seen = {}
    for b in behs:
        seen.setdefault(json.dumps(b["tests"]), b)
    behs = list(seen.values())
    sampled = False
    if not ctx.quick and len(behs) > 2500:
        # every history costs a forked interpreter (and 3 s for each hanging step): a seeded sample keeps
        # the thorough tier to roughly an hour on a loaded machine; single and two-test histories are all kept
        rng = ctx.rng("hist-thorough")
        short = [b for b in behs if len(b["tests"]) <= 2]
        rest = [b for b in behs if len(b["tests"]) > 2]
        rng.shuffle(rest)
        behs = short + rest[:max(0, 2500 - len(short))]
        sampled = True
    if ctx.quick and len(behs) > 300:
        rng = ctx.rng("hist")
        singles = [b for b in behs if len(b["tests"]) <= 2]
        rest = [b for b in behs if len(b["tests"]) > 2]
        rng.shuffle(rest)
        behs = singles + rest[:300 - len(singles)]
    distinct_tests = sorted({json.dumps(t) for b in behs for t in b["tests"]})
    wd = str(ctx.work / "sut")
    procstate.preload(wd)
    solo_runs = _fresh_many([({"tests": [json.loads(t)]}, wd, None) for t in distinct_tests])
    solo = {}
    for t, r in zip(distinct_tests, solo_runs):
        if "error" in r:
            raise MachineryError(f"solo run of {t} failed: {r['error']}")
        solo[t] = r["ev"][0]["res"]
    results = _fresh_many([(b, wd, None) for b in behs])
    traces = []
    intern: dict[str, int] = {}
    for b, r in zip(behs, results):
        if "error" in r:
            raise MachineryError(f"history {b} failed: {r['error']}")
        for e in r["ev"]:
            e["solo"] = intern.setdefault(solo[json.dumps(e["steps"])], len(intern) + 1)
            e["res_text"] = e["res"]
            e["res"] = intern.setdefault(e["res"], len(intern) + 1)
        traces.append(r)
        if any(s not in ("print", "raise") for t in b["tests"] for s in t):
            ctx.nontriv(json.dumps(b["tests"]))
    ctx.evaluations = len(traces)
    ctx.exhaustive = not ctx.quick and not sampled
    verdicts = ctx.validate("ProcStateTrace", traces)
    for idx, bad in sorted(verdicts.items()):
        for clause, step in bad:
            ev = traces[idx]["ev"][step - 1]
            prev = [e["steps"] for e in traces[idx]["ev"][:step - 1]]
            culprit = "+".join(sorted({s for t in (prev if clause == "OrderIndependent" else [ev["steps"]]) for s in t
                                       if s in ("close_stdout", "close_fd", "log_disable", "log_hang", "seed", "draw", "draw_inst", "mutate_global")})) or "-"
            ctx.bad(clause, f"C30/{clause}/{culprit}" + (f"/then-{'+'.join(ev['steps'])}" if clause == "OrderIndependent" else ""),
                    f"history {behs[idx]['tests']} test {step} {ev['steps']}: "
                    f"{ {k: ev[k] for k in ('stdout_same', 'stderr_same', 'fd1_open', 'log_same', 'rng_same')} } "
                    f"result={ev['res_text']} solo_id={ev['solo']} res_id={ev['res']}",
                    trace=traces[idx], behaviour=behs[idx])
    for b, t in list(zip(behs, traces))[10:12]:
        ctx.sample({"history": b["tests"], "observed": [{k: e[k] for k in ("steps", "log_same", "stdout_same", "fd1_open", "res", "solo")} for e in t["ev"]]})


def replay(ctx: Ctx, rec: dict) -> int:
    r = fresh((rec["behaviour"], str(ctx.work / "sut"), None))
    print(json.dumps(r, indent=1)[:3000])
    return 0

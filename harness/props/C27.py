"""C27 The test cluster holds exactly the module's eligible callables.

Design: Cluster.tla (module analysis as a transition system over modules built by
ClusterOps!NextModules; intended decision procedure satisfies C27, the procedure as coded does not).
P2: every module of MC_Cluster (exhaustive up to a few builder steps) and random larger modules
(-simulate) are rendered as real packages (SUT + helper module), analysed by the real
`generate_test_cluster` under PUBLIC / PROTECTED / ALL and the case's ignore lists;
ClusterTrace.tla evaluates Must <= accessible_objects_under_test <= May and NothingForeign on the
recorded sets.
"""

from __future__ import annotations

import json
import os
import shutil
from pathlib import Path

from harness.adapters import cluster as ad
from harness.core import NCPU, Ctx, parallel_map
from harness.tlc import MachineryError

CLAUSES = ("UnderTestSubsetOfEligible", "EligibleSubsetOfUnderTest", "NothingForeignUnderTest")
_ROOT: Path | None = None


def _run_one(item):
    n, case = item
    return ad.run_case(case, _ROOT, n)


def _slim(tr: dict) -> dict:
    return {"modign": tr["modign"], "focus": tr["focus"],
            "M": [{k: v for k, v in r.items() if k != "name"} for r in tr["M"]],
            "ev": [{"vis": e["vis"], "ut": e["ut"]} for e in tr["ev"]]}


def signature(tr: dict, i: int, clause: str, vis: str) -> str:
    r = tr["M"][i - 1]
    o = tr["M"][r["owner"] - 1] if r["owner"] else None
    owner = o["kind"] if o else "module"
    if clause == "EligibleSubsetOfUnderTest":
        cause = f"name={r['nc']}"
    elif clause == "NothingForeignUnderTest":
        cause = f"inh={r['inh']}"
    elif r["def"] != "sut":
        cause = "foreign"
    elif r["ig"] == "exact":
        cause = "listed-in-ignore_methods"
    elif tr["modign"] == "sut":
        cause = "module-in-ignore_modules"
    elif r["inh"] not in ("own", "sut"):
        cause = f"inh={r['inh']}"
    else:
        cause = f"name={r['nc']}@{vis}"
        if o and o["nc"] == "pubus" and r["nc"] == "priv":
            owner += "(underscore-in-name)"
    return f"C27/{clause}/{r['kind']}/{owner}/{cause}"


def _detail(tr: dict, i: int, clause: str, vis: str, present: bool) -> str:
    r = tr["M"][i - 1]
    own = f" of {tr['M'][r['owner'] - 1]['kind']} {tr['M'][r['owner'] - 1]['name']}" if r["owner"] else ""
    return (f"{r['kind']} `{r['name']}`{own} (name class {r['nc']}, written in {r['def']}, {r['inh']}, "
            f"ignore_methods entry: {r['ig']}) is {'UNDER TEST' if present else 'NOT under test'} with "
            f"element_visibility={vis}, ignore_modules={tr.get('ignore_modules', tr['modign'])}: {clause} is false")


def _check(ctx: Ctx, traces: list[dict], cases: list[dict]) -> None:
    verdicts = ctx.validate("ClusterTrace", [_slim(t) for t in traces])
    flagged = sorted(verdicts)
    for idx in flagged:
        for clause, _ in verdicts[idx]:
            if clause == "RecordsWellTyped":
                raise RuntimeError(f"harness bug: ill-typed member record in case {idx}")
            if clause == "ObservedMonotone":
                ctx.drift.append(f"case {idx}: relaxing element_visibility removed a callable "
                                 f"(ObservedMonotone): {[e['ut'] for e in traces[idx]['ev']]}")
    # attribution: one single-event trace per (member, visibility) of every flagged case
    focus, back = [], []
    for idx in flagged:
        for ft in ad.focus_traces(traces[idx]):
            focus.append(_slim(ft))
            back.append((idx, ft["focus"], ft["ev"][0]["vis"], bool(ft["ev"][0]["ut"])))
    fverd = ctx.validate("ClusterTrace", focus) if focus else {}
    attributed: dict[int, set] = {}
    for k, bad in sorted(fverd.items()):
        idx, i, vis, present = back[k]
        tr = traces[idx]
        for clause, _ in bad:
            attributed.setdefault(idx, set()).add(clause)
            if clause == "ModelAgrees":
                r = tr["M"][i - 1]
                ctx.drift.append(f"ModelAgrees: code {'includes' if present else 'excludes'} {r['kind']} "
                                 f"{r['name']} nc={r['nc']} def={r['def']} inh={r['inh']} ig={r['ig']} "
                                 f"vis={vis} modign={tr['modign']}; ClusterOps!CodeInclude says otherwise")
            elif clause in CLAUSES:
                ctx.bad(clause, signature(tr, i, clause, vis), _detail(tr, i, clause, vis, present),
                        trace=tr, behaviour=cases[idx])
    for idx in flagged:
        for clause, _ in verdicts[idx]:
            if clause in CLAUSES + ("ModelAgrees",) and clause not in attributed.get(idx, set()):
                raise MachineryError(f"case {idx}: {clause} violated on the whole module but on no "
                                     f"single member")


def run(ctx: Ctx) -> None:
    global _ROOT
    ctx.rule = ("case = (module built by ClusterOps!NextModules, ignore_modules setting) enumerated by TLC "
                "from MC_Cluster (all modules of <= 3 builder steps in shape 'small'; thorough: also all "
                "modules of 2 arbitrary steps) plus random larger modules (-simulate); the builder derives SUT "
                "classes from SUT classes and from classes imported from the helper module, every method / static "
                "method / class method / property / lambda attribute of the base class being inherited or overridden "
                "(ovr = none / methods / all); each case is rendered "
                "as a package and analysed under PUBLIC, PROTECTED, ALL; non-trivial = distinct (member kind, "
                "name class, defining module, inheritance, ignore entry, owner kind, owner name class, "
                "visibility, ignore_modules, observed under-test bit)")
    ctx.assumptions = [
        "eligibility by name follows the documentation of Configuration.element_visibility / ElementVisibility",
        "not demanded (either answer accepted): constructors and members of non-public, abstract, nested "
        "classes; enum classes as such; lambdas, coroutines, closures, properties, dunder-named members, "
        "`main` / `test*` functions, module-level `_x__y` names under PROTECTED, members inherited from a "
        "class of the module under test listed again under the subclass",
        "a member (method, static method, class method, property) that a class of the module under test "
        "inherits, without overriding it, from a class of another module is defined in another module and must "
        "not be under test via the inheriting class",
        "'really defined in' = file of the code object / inspect.getsourcefile of the class",
        "ignore_methods entries have the form <module>.<qualname> (as consumed by instrumentation/machinery.py)",
    ]
    ctx.design("Cluster", "Cluster.cfg" if ctx.quick else "Cluster_full.cfg",
               coverage_actions=["Build", "Freeze", "StartModule", "AnalyseClass", "EndClasses",
                                 "AnalyseFunction", "EndFunctions", "Finish"],
               workers=4 if ctx.quick else 8)
    if not ctx.quick:
        ctx.design("Cluster", "Cluster_thorough.cfg", workers=8)
    quirk = ctx.design("Cluster", "Cluster_quirks.cfg", expect_ok=False, workers=2)
    found = {v.name for v in quirk.violations}
    if not found & set(CLAUSES):
        raise MachineryError("Cluster.tla with Quirks = TRUE (the procedure as coded) satisfies C27: "
                             "the design model cannot see the known deviations")
    ctx.notes["design_quirks_model_violates"] = sorted(found)

    cases = ctx.behaviours("MC_Cluster", "MC_Cluster.cfg", workers=2)
    if not ctx.quick:
        cases += ctx.behaviours("MC_Cluster", "MC_Cluster_full.cfg", workers=2)
    n_exh = len(cases)
    for st in ctx.simulate("MC_Cluster", "MC_Cluster_sim.cfg", num=150 if ctx.quick else 600,
                           depth=8 if ctx.quick else 12):
        if st["hist"]:
            cases.append({"modign": st["modign"], "steps": st["steps"], "M": st["hist"]})
    seen, uniq = set(), []
    for c in cases:
        k = json.dumps([c["modign"], c["M"]], sort_keys=True)
        if k not in seen:
            seen.add(k)
            uniq.append(c)
    cases = uniq
    ctx.notes["cases_exhaustive"] = n_exh
    ctx.notes["cases_total_distinct"] = len(cases)
    ctx.exhaustive = True

    _ROOT = ctx.work / "pkgs"
    _ROOT.mkdir(parents=True, exist_ok=True)
    import time
    t0 = time.time()
    # results do not depend on the schedule; on an overloaded machine a fork pool was measured to be
    # several times slower than a serial loop, so the pool is only used when cores are free
    procs = min(8, NCPU) if os.getloadavg()[0] < 0.75 * NCPU else 1
    traces = parallel_map(_run_one, list(enumerate(cases)), procs=procs, chunksize=8)
    ctx.notes["real_analysis_procs"] = procs
    ctx.notes["real_analysis_wall_s"] = round(time.time() - t0, 1)
    ctx.evaluations = 3 * len(traces)
    for t in traces:
        for e in t["ev"]:
            for i, r in enumerate(t["M"], 1):
                o = t["M"][r["owner"] - 1] if r["owner"] else {"kind": "module", "nc": "-"}
                ctx.nontriv((r["kind"], r["nc"], r["def"], r["inh"], r["ig"], o["kind"], o["nc"],
                             e["vis"], t["modign"], i in e["ut"]))
    ctx.notes["members_rendered"] = sum(len(t["M"]) for t in traces)
    ctx.notes["largest_module_members"] = max(len(t["M"]) for t in traces)
    # inherited members in the analysed modules: (kind, base class in sut/other, view or override) -> modules
    inherited: dict[str, int] = {}
    for t in traces:
        for key in {f"{r['kind']}/base={t['M'][r['src'] - 1]['def']}/"
                    f"{'inherited' if r['inh'] in ('sut', 'other') else 'overridden'}"
                    for r in t["M"] if r["src"]}:
            inherited[key] = inherited.get(key, 0) + 1
    ctx.notes["modules_with_inherited_member"] = dict(sorted(inherited.items()))
    need = {f"{k}/base={b}/{w}" for k in ("method", "staticmethod", "classmethod", "property")
            for b in ("sut", "other") for w in ("inherited", "overridden")}
    if need - set(inherited):
        raise MachineryError(f"vacuous: no analysed module contains {sorted(need - set(inherited))}")
    _check(ctx, traces, cases)
    small = [t for t in traces if 2 <= len(t["M"]) <= 4]
    for t in small[:1] + small[len(small) // 2:len(small) // 2 + 1] + small[-1:]:
        ctx.sample({"modign": t["modign"], "ignore_methods": t["ignore_methods"],
                    "sut.py": t["sut_src"].splitlines()[1:],
                    "members": [f"{r['kind']} {r['name']} def={r['def']} inh={r['inh']}" for r in t["M"]],
                    "observed": [{e["vis"]: e["objs"]} for e in t["ev"]]})


def replay(ctx: Ctx, rec: dict) -> int:
    global _ROOT
    _ROOT = ctx.work / "pkgs"
    _ROOT.mkdir(parents=True, exist_ok=True)
    tr = ad.run_case(rec["behaviour"], _ROOT, 0)
    print("module under test:\n" + tr["sut_src"])
    print("helper module:\n" + tr["helper_src"])
    print("ignore_methods:", tr["ignore_methods"], "ignore_modules:", tr["ignore_modules"])
    for e in tr["ev"]:
        print(e["vis"], "->", e["objs"])
    focus = [_slim(t) for t in ad.focus_traces(tr)]
    verdicts = ctx.validate("ClusterTrace", focus)
    bad = sorted({(c, focus[k]["focus"], focus[k]["ev"][0]["vis"]) for k, v in verdicts.items()
                  for c, _ in v if c in CLAUSES})
    shutil.rmtree(ctx.work, ignore_errors=True)
    if bad:
        for c, i, vis in bad:
            print(f"VIOLATION property=C27 replay=(this) clause={c} member={tr['M'][i - 1]['name']} "
                  f"vis={vis} signature={signature(tr, i, c, vis)}")
        return 1
    print("OK")
    return 0

"""C11 Adding tests never lowers coverage or raises fitness; merging execution traces is
order-independent.

Design: Fitness.tla with finished tests (Merge commutative / associative / neutral, analyze_results is
a fold, AddTestMonotone as invariant and as action property of FinishTest).
Replay: every pair / triple of abstract traces of MC_Fitness (small registries) and random families from
-simulate are materialised as real ExecutionTraces; suites are real TestSuiteChromosomes (clone +
add_test_case_chromosome); values come from the real analyze_results / ExecutionTrace.merge / fitness and
coverage functions; FitnessTrace.tla evaluates the C11 clauses on them.
"""

from __future__ import annotations

import itertools
import json

from harness.adapters import fitness as ad
from harness.core import Ctx, parallel_map
from harness.props.C10 import DRIFT, order_exs, plain, real_for

_MAT: dict[tuple, list] = {}


def _materialised(reg: dict, traces: list[dict], pal: int):
    """cache per (registry, palette): abstract trace index -> real ExecutionTrace (never mutated:
    analyze_results / merge_event work on fresh targets / clones)."""
    key = (json.dumps(reg, sort_keys=True), pal)
    m = _MAT.get(key)
    if m is None or len(m) != len(traces):
        real = real_for(reg)
        m = _MAT[key] = [ad.materialise(t, real, ad.PALETTES[pal]) for t in traces]
    return m


def _job(job) -> dict:
    kind, reg, exs, traces, idx, pal = job
    real = real_for(reg)
    if kind.startswith("sim-"):  # traces given explicitly (simulation, replay): no cache
        mats = [ad.materialise(t, real, ad.PALETTES[pal]) for t in traces]
    else:
        mats = _materialised(reg, traces, pal)
    fam = [mats[i] for i in idx]
    if kind.endswith("add"):
        return ad.add_event(real, fam, exs, ad.PALETTES[pal])
    return ad.merge_event(real, fam)


_GROUPS: list = []


def _job_enum(j) -> dict:
    kind, g, idx, pal = j
    grp = _GROUPS[g]
    return _job((kind, grp["reg"], grp["exs"], grp["traces"], idx, pal))


def offenders(ev: dict, clause: str) -> str:
    out = []
    if clause == "AddCoverageMonotone":
        for a, b in zip(ev["pre"]["covs"], ev["post"]["covs"]):
            if not (0 <= a["v"] <= b["v"]):
                out.append(f"{a['n']}: coverage rank {a['v']} -> {b['v']}")
    elif clause == "AddFitnessMonotone":
        for a, b in zip(ev["pre"]["fits"], ev["post"]["fits"]):
            if not (0 <= b["v"] <= a["v"]):
                out.append(f"{a['n']}[ex={ev['exs'][a['x']]}]: fitness rank {a['v']} -> {b['v']}")
    elif clause == "MergeKeepsInputs":
        out.append("analyze_results over the same cached results changed an individual trace")
    elif clause == "MergeOrderIndependent":
        first = ev["projs"][0]
        for h, p in zip(ev["how"], ev["projs"]):
            if p != first:
                out.append(f"{ev['how'][0]} gives {first} but {h} gives {p}")
                break
    errs = ev["pre"]["errs"] + ev["post"]["errs"]
    return "; ".join(out[:3]) + (" " + "; ".join(errs[:3]) if errs else "")


def _site(ev: dict, clause: str) -> str:
    """call site for the signature (report only): names of the functions whose values moved the wrong way."""
    if clause == "AddCoverageMonotone":
        names = sorted({a["n"] for a, b in zip(ev["pre"]["covs"], ev["post"]["covs"]) if not (0 <= a["v"] <= b["v"])})
    elif clause == "AddFitnessMonotone":
        names = sorted({a["n"] for a, b in zip(ev["pre"]["fits"], ev["post"]["fits"]) if not (0 <= b["v"] <= a["v"])})
    elif clause == "MergeKeepsInputs":
        names = ["analyze_results"]
    else:
        names = ["ExecutionTrace.merge"]
    return ",".join(names) or "?"


def run(ctx: Ctx) -> None:
    ctx.rule = ("case = family of execution traces over a registry: ALL ordered triples (quick) / triples and "
                "pairs over larger registries (thorough) of the well-formed abstract traces enumerated by TLC "
                "from MC_Fitness, plus random families of up to 4 test traces from -simulate. For every family "
                "prefix (suite) and next trace an 'add' event (all suite level fitness / coverage functions before "
                "and after adding the test, real analyze_results) and for every family a 'merge' event (real "
                "ExecutionTrace.merge in every permutation x grouping). non-trivial = distinct event whose added "
                "trace / family is not all-empty")
    ctx.assumptions = [
        "traces are what the tracer can produce (FitnessOps!WF, inductive by Fitness.tla)",
        "fitness / coverage functions = all suite level functions of fitness_metrics.py and computations.py "
        "(branch distance with exclusion sets, line, statement-checked, assertion-checked with no assertions)",
        "coverage relevant projection of a merged trace = executed code objects, predicate counts, minimal "
        "true / false distances (absent key distinguished), covered lines, checked lines",
        "floats are compared by TLC through their rank within the event; distance representatives avoid the "
        "1e16 range where float normalise() d/(1+d) is not monotone by one ulp",
    ]
    q = ctx.quick
    ctx.design("Fitness", "Fitness_merge.cfg" if q else "Fitness_merge_thorough.cfg",
               coverage_actions=["ExecutedPredicate", "FinishTest"])
    if not q:
        ctx.design("Fitness", "Fitness_merge_lines.cfg", coverage_actions=["TrackLineVisit", "CheckedLine", "FinishTest"])
    groups = ctx.behaviours("MC_Fitness", "MC_Fitness_fam.cfg" if q else "MC_Fitness_fam_thorough.cfg")
    if not q:
        have = {json.dumps(g["reg"], sort_keys=True) for g in groups}
        groups += [g for g in ctx.behaviours("MC_Fitness", "MC_Fitness_fam2.cfg")
                   if json.dumps(g["reg"], sort_keys=True) not in have]
    _GROUPS.clear()
    jobs, origin = [], []
    seen_add: set = set()
    for g in groups:
        g["exs"] = order_exs(g["exs"])
        g["traces"] = sorted(g["traces"], key=lambda t: json.dumps(t, sort_keys=True))
        _GROUPS.append(g)
        gi = len(_GROUPS) - 1
        n = len(g["traces"])
        reg = g["reg"]
        size = reg["np"] + len(reg["cos"]) + reg["nl"]
        # triples over small registries, pairs over the larger ones
        k = 3 if n <= (11 if q else 32) else 2
        if size == 0:
            k = 1
        for fam in itertools.product(range(n), repeat=k):
            for m in range(1, k + 1):
                pre = fam[:m]
                if (gi, pre) not in seen_add:
                    seen_add.add((gi, pre))
                    jobs.append(("add", gi, pre, 0))
                    origin.append({"kind": "add", "reg": reg, "suite": [g["traces"][i] for i in pre[:-1]],
                                   "added": g["traces"][pre[-1]], "exs": g["exs"], "palette": 0})
            if k > 1 and list(fam) == sorted(fam):
                jobs.append(("merge", gi, fam, 0))
                origin.append({"kind": "merge", "reg": reg, "family": [g["traces"][i] for i in fam], "palette": 0})
    n_enum = len(jobs)
    events = parallel_map(_job_enum, jobs, chunksize=64)
    # random families
    rng = ctx.rng("families")
    sim_jobs = []
    for st in ctx.simulate("MC_Fitness", "MC_Fitness_sim.cfg", num=150 if q else 3000, depth=50):
        reg, ex = plain(st["reg"]), plain(st["ex"])
        exs = order_exs([{"code": [], "tr": [], "fa": []}] + ([ex] if ex["code"] or ex["tr"] or ex["fa"] else []))
        fam = plain(st["tests"]) + [plain(st["cur"])]
        pal = rng.randrange(len(ad.PALETTES))
        order = list(range(len(fam)))
        rng.shuffle(order)
        for m in range(1, len(fam) + 1):
            sim_jobs.append(("sim-add", reg, exs, fam, tuple(order[:m]), pal))
            origin.append({"kind": "add", "reg": reg, "suite": [fam[i] for i in order[:m - 1]],
                           "added": fam[order[m - 1]], "exs": exs, "palette": pal, "from": "simulate"})
        sim_jobs.append(("sim-merge", reg, exs, fam, tuple(range(len(fam))), pal))
        origin.append({"kind": "merge", "reg": reg, "family": fam, "palette": pal, "from": "simulate"})
    events += parallel_map(_job, sim_jobs, chunksize=32)
    ctx.exhaustive = True
    ctx.notes["events_enumerated"] = n_enum
    ctx.notes["events_simulated"] = len(sim_jobs)
    ctx.notes["registries"] = [g["reg"] for g in groups]
    ctx.notes["functions"] = ad.LEGEND
    n_eval = 0
    for o, ev in zip(origin, events):
        if ev["kind"] == "add":
            n_eval += len(ev["post"]["fits"]) + len(ev["post"]["covs"])
            a = o["added"]
            if a["cos"] or any(a["cnt"]) or a["lines"] or a["chk"]:
                ctx.nontriv(json.dumps([o["reg"], o["suite"], a, o["palette"]], sort_keys=True))
        else:
            n_eval += len(ev["projs"])
            if any(t["cos"] or any(t["cnt"]) or t["lines"] or t["chk"] for t in o["family"]):
                ctx.nontriv(json.dumps([o["reg"], o["family"], o["palette"]], sort_keys=True))
    ctx.evaluations = n_eval
    verdicts = ctx.validate("FitnessTrace", [{"ev": [ev]} for ev in events], cfg="FitnessTrace_C11.cfg", chunk=8000)
    drift_seen: dict[str, int] = {}
    for idx, bad in sorted(verdicts.items()):
        ev = events[idx]
        for clause, _step in bad:
            if clause in DRIFT:
                drift_seen[clause] = drift_seen.get(clause, 0) + 1
                if drift_seen[clause] <= 3:
                    ctx.drift.append(f"{clause}: real code and FitnessOps disagree on {json.dumps(origin[idx])[:400]}")
                continue
            ctx.bad(clause, f"C11/{clause}/{_site(ev, clause)}",
                    f"registry {ev['reg']} {origin[idx]['kind']} case: {offenders(ev, clause)}",
                    trace=ev, behaviour=origin[idx])
    for c, n in drift_seen.items():
        ctx.drift.append(f"{c}: {n} cases in total")
    for i in (1, n_enum // 2, n_enum - 1, len(events) - 1):
        e = events[i]
        ctx.sample({"case": origin[i], "observed": {"pre": e["pre"]["fits"][:2] + e["pre"]["covs"][:2],
                                                      "post": e["post"]["fits"][:2] + e["post"]["covs"][:2],
                                                      "projections": e["projs"][:2]}})


def replay(ctx: Ctx, rec: dict) -> int:
    b = rec["behaviour"]
    if b["kind"] == "add":
        fam = b["suite"] + [b["added"]]
        ev = _job(("sim-add", b["reg"], b["exs"], fam, tuple(range(len(fam))), b["palette"]))
    else:
        ev = _job(("sim-merge", b["reg"], [], b["family"], tuple(range(len(b["family"]))), b["palette"]))
    verdicts = ctx.validate("FitnessTrace", [{"ev": [ev]}], cfg="FitnessTrace_C11.cfg")
    print("replayed event:", json.dumps(ev)[:2000])
    bad = [c for c, _ in verdicts.get(0, []) if c not in DRIFT]
    if bad:
        print(f"VIOLATION property=C11 replay=(this) clauses={bad}")
        return 1
    print("OK")
    return 0

"""C15 Variation operators keep every test case well-formed.

Design: TestCase.tla (API under the callers' guards + composite factory / mutation / crossover
steps as coded): AllWF, CounterOK, CrossoverLenBound hold; GuardsSuffice (every API call, every
argument: guard => WF preserved); as coded LenBound is violated by one insertion adding the call
and its dependencies (expected counterexample), with the repaired guard it holds; without guards
WF breaks (expected counterexample).
P2: TLC-generated API behaviours (MC_TestCase: every seed pair x every call, random longer ones)
    on real tc.TestCase objects; TestCaseTrace_api.cfg.
P1 (main binding): long random histories of the REAL TestFactory, TestCaseChromosome.mutate,
    SinglePointRelativeCrossOver, TestCaseLocalSearch, RandomLengthTestCaseFactory, chop,
    remove_unused_variables, ... over clusters built by generate_test_cluster for two written and
    several generated SUT modules; after EVERY operation the test case is projected independently
    (ast on the rendered code, compile(), registry through variables_of_type) and TLC evaluates
    ValidPython, ReadsBound, UniqueNames, RegistryOK, LenBound* on it (TestCaseTrace.cfg).
"""

from __future__ import annotations

import json
from concurrent.futures import ThreadPoolExecutor

from harness import tlc
from harness.adapters import testcase_ops as ad
from harness.core import Ctx
from harness.tlc import MachineryError

PROP = "C15"


def make_threadsafe(ctx: Ctx) -> None:
    """Serialise the bookkeeping of TLC runs: the design runs overlap with the replays."""
    import threading
    lock, orig = threading.Lock(), ctx._account

    def locked(*a, **k):
        with lock:
            orig(*a, **k)
    ctx._account = locked


# ------------------------------------------------------------------------------ design
def design_runs(ctx: Ctx) -> None:
    """(cfg, invariant expected to be violated or None)"""
    runs = [("TestCase.cfg" if ctx.quick else "TestCase_thorough.cfg", None),
            ("TestCase_asis_lenbound.cfg", "LenBound")]
    if not ctx.quick:
        runs += [("TestCase_guards.cfg", None), ("TestCase_room.cfg", None), ("TestCase_raw.cfg", "AllWF")]

    def one(run):
        cfg, _ = run
        return tlc.run_tlc("TestCase", cfg, workdir=ctx.work / f"d-{cfg}", workers=3, timeout=3000)

    with ThreadPoolExecutor(max_workers=3) as ex:
        results = list(ex.map(one, runs))
    for (cfg, expect), res in zip(runs, results):
        ctx._account(f"TestCase[{cfg}]", res, "design")
        names = {v.name for v in res.violations}
        if expect is None and names:
            v = res.violations[0]
            raise MachineryError(f"design model TestCase ({cfg}) violates {v.name}: the specification "
                                 f"itself is wrong (not a verdict about the code)\n"
                                 + json.dumps(v.states[-2:], indent=1)[:3000])
        if expect is not None and names != {expect}:
            raise MachineryError(f"design model TestCase ({cfg}) must violate exactly {expect}, got {names}")
    ctx.notes["design_as_coded_violates_LenBound"] = True


# ------------------------------------------------------------------------------ P2
def _plain(x):
    """TLC value text parsed by tlc.parse_tla_value: sets -> sorted lists."""
    if isinstance(x, dict):
        if set(x) == {"__set__"}:
            return sorted(_plain(v) for v in x["__set__"])
        return {k: _plain(v) for k, v in x.items()}
    if isinstance(x, list):
        return [_plain(v) for v in x]
    return x


def api_behaviours(ctx: Ctx) -> list[dict]:
    """Exhaustive depth-1 behaviours and simulated longer ones (two TLC runs side by side)."""
    plan = [("MC_TestCase_simq.cfg", 60, 8)] if ctx.quick else \
        [("MC_TestCase_sim.cfg", 400, 13), ("MC_TestCase_simraw.cfg", 400, 9)]

    def simulated() -> list[dict]:
        sims = []
        for cfg, num, depth in plan:
            for st in ctx.simulate("MC_TestCase", cfg, num=num, depth=depth):
                st = _plain(st)
                if st.get("hist"):
                    sims.append({"init": [{"st": o["st"], "ctr": o["ctr"]} for o in st["init"]],
                                 "hist": st["hist"]})
        return sims

    with ThreadPoolExecutor(max_workers=1) as ex:
        fut = ex.submit(simulated)
        behs = ctx.behaviours("MC_TestCase", "MC_TestCase.cfg" if ctx.quick else "MC_TestCase_thorough.cfg",
                              workers=3)
        sims = fut.result()
    behs.sort(key=lambda b: json.dumps(b, sort_keys=True))   # PrintT order depends on TLC's workers
    ctx.notes["api_behaviours_exhaustive_depth1"] = len(behs)
    ctx.notes["api_behaviours_simulated"] = len(sims)
    return behs + sims


def api_signature(ev: dict, clause: str) -> str:
    return f"C15/{clause}/TestCase.{ev['op']}"


def run_api(ctx: Ctx, behs: list[dict]) -> None:
    traces = [ad.replay_api(b) for b in behs]
    for t in traces:
        for e in t["ev"]:
            if e["post"]["st"] != e["pre"]["st"] or e["post"]["ctr"] != e["pre"]["ctr"] or e["op"] == "clone":
                ctx.nontriv(("api", e["op"], json.dumps(e["pre"]["st"]), json.dumps(e["s"]), e["i"],
                             tuple(e["S"]), json.dumps(e["other"]["st"]) if e["o2"] else ""))
    verdicts = ctx.validate("TestCaseTrace", traces, cfg="TestCaseTrace_api.cfg")
    ctx.notes["api_calls_replayed"] = sum(len(t["ev"]) for t in traces)
    for idx, bad in sorted(verdicts.items()):
        tr = traces[idx]
        for clause, step in bad:
            ev = tr["ev"][step - 1]
            detail = (f"TestCase.{ev['op']}(i={ev['i']}, S={ev['S']}, s={ev['s']}, other={ev['other']['st']}) on "
                      f"{ev['pre']} -> {ev['post']} exc={ev['exc']!r} ret={ev['ret']}")
            if clause.startswith("Drift_"):
                ctx.drift.append(f"{clause}: {detail}"[:600])
            else:
                ctx.bad(clause, api_signature(ev, clause), detail, trace={"ev": tr["ev"][:step]},
                        behaviour={"kind": "api", "beh": behs[idx]})
    if traces:
        ctx.sample({"api_history": [{k: e[k] for k in ("op", "i", "S", "s", "pre", "post")}
                                    for e in traces[len(traces) // 2]["ev"][:2]]})


# ------------------------------------------------------------------------------ P1
def history_specs(ctx: Ctx) -> list[dict]:
    rng = ctx.rng("histories")
    gen_dir = ctx.work / "sut"
    gen_dir.mkdir(parents=True, exist_ok=True)
    modules = [(m, None) for m in ad.STATIC_SUTS]
    for g in range(2 if ctx.quick else 8):
        name = f"c15gen_{ctx.seed}_{g}"
        (gen_dir / f"{name}.py").write_text(ad.generate_sut(ctx.rng(f"sut{g}"), name))
        modules.append((name, str(gen_dir)))
    specs = []
    reps = 1 if ctx.quick else 6
    steps = 90 if ctx.quick else 260
    for module, src in modules:
        for L in (5, 8, 12):
            for r in range(reps):
                specs.append({"module": module, "src_dir": src, "seed": rng.randrange(1 << 30),
                              "steps": steps, "L": L, "profile": (r + L) % 2})
    return specs


def lenbound_signature(ev: dict, clause: str) -> str:
    if ev["pre_n"] >= ev["L"]:
        how = "at-or-above-max/grows"
    elif ev["site"] == "crossover":
        how = "from-below-max/offspring-over-max"
    else:
        how = "from-below-max/call-plus-dependencies-overshoot"
    return f"C15/{clause}/{ev['op']}/{how}"


def history_signature(ev: dict, clause: str) -> str:
    if clause.startswith("LenBound"):
        return lenbound_signature(ev, clause)
    return f"C15/{clause}/{ev['op']}"


def run_histories(ctx: Ctx) -> None:
    specs = history_specs(ctx)
    traces, metas = [], []
    feats = {}
    opcount: dict[str, int] = {}
    crashes: dict[str, int] = {}
    for sp in specs:
        h = ad.run_history(sp)
        traces.append({"ev": h["ev"]})
        metas.append(h["meta"])
        if sp["module"] not in feats:
            feats[sp["module"]] = ad.cluster_features(ad.cluster_for(sp["module"])[0], sp["module"])
        for o, c in h["meta"]["ops"].items():
            opcount[o] = opcount.get(o, 0) + c
        last: dict[int, str] = {}
        for e in h["ev"]:
            shape = json.dumps(e["post"]["st"])
            if last.get(e["o"]) != shape:
                ctx.nontriv(hash((e["op"], shape)))
            last[e["o"]] = shape
            if e["exc"]:
                crashes[f"{e['op']}:{e['exc']}"] = crashes.get(f"{e['op']}:{e['exc']}", 0) + 1
    ctx.notes["histories"] = len(specs)
    ctx.notes["history_events"] = sum(len(t["ev"]) for t in traces)
    ctx.notes["operations_driven"] = opcount
    ctx.notes["cluster_contents"] = feats
    ctx.notes["operator_crashes"] = crashes
    for k, c in sorted(crashes.items()):
        ctx.drift.append(f"operator raised (recorded, history continued): {k} x{c}")
    verdicts = ctx.validate("TestCaseTrace", traces, cfg="TestCaseTrace.cfg", chunk=60)
    seen_sig = set()
    for idx, bad in sorted(verdicts.items()):
        tr = traces[idx]
        for clause, step in bad:
            ev = tr["ev"][step - 1]
            names = metas[idx]["names"]
            detail = (f"{specs[idx]['module']} L={ev['L']} seed={specs[idx]['seed']} step {step}: {ev['op']}"
                      f"(arg={ev['arg']}) size {ev['pre_n']} -> {len(ev['post']['st'])}: {ad.render(ev)}"
                      f"{' other names ' + json.dumps(names) if names else ''}")
            if clause.startswith("Drift_"):
                ctx.drift.append(f"{clause}: {detail}"[:600])
                continue
            sig = history_signature(ev, clause)
            if sig in seen_sig:
                continue
            seen_sig.add(sig)
            ctx.bad(clause, sig, detail[:1500], trace={"ev": tr["ev"][max(0, step - 3):step]},
                    behaviour={"kind": "history", "spec": specs[idx], "step": step})
    if traces:
        e = traces[0]["ev"][min(5, len(traces[0]["ev"]) - 1)]
        ctx.sample({"history_event": {"op": e["op"], "site": e["site"], "pre_n": e["pre_n"], "L": e["L"],
                                      "post": {"st": e["post"]["st"][:6], "reg": e["post"]["reg"][:4],
                                               "ctr": e["post"]["ctr"], "valid": e["post"]["valid"]}}})


# ------------------------------------------------------------------------------ entry points
def run(ctx: Ctx) -> None:
    ctx.rule = ("P1 case = one public operation of a random history (module x chromosome_length x seed; "
                "operations: insert_random_statement, append_generic_accessible, delete_statement_gracefully, "
                "change_random_call, change_statement_type, change_random_field_call, mutate_value, mutate_call, "
                "TestCaseChromosome.mutate with its delete/change/insert sub-steps, SinglePointRelativeCrossOver, "
                "chop, remove_unused_variables, remove_statement_with_forward_dependencies, clone, "
                "append_test_case(_from), TestCaseLocalSearch with every probe, RandomLengthTestCaseFactory) "
                "on three chromosomes; P2 case = one TestCase API call of a TLC-generated behaviour "
                "(all seed pairs x all calls at depth 1, random deeper ones); non-trivial = the operation "
                "changed the statement sequence: distinct (operation, resulting abstract test case)")
    ctx.assumptions = [
        "names that are not variables read: the SUT module alias, pytest, builtins, lambda parameters and "
        "comprehension targets",
        "LenBound is evaluated for crossover and for the insertion sites that consult chromosome_length "
        "(TestCaseMutation._mutation_insert, RandomLengthTestCaseFactory.get_test_case, and direct "
        "insert_random_statement calls made under the same guard size() < chromosome_length); "
        "append_generic_accessible / local-search insertions / change_* dependencies are not insertions "
        "in that sense",
        "local search runs with a scripted objective (random verdicts) and a call-budget timer; no LLM",
        "P2 renders abstract statements as calls of harness.sut.c15_tiny; var numbers < 10 (string order = "
        "numeric order in append_test_case_from)",
    ]
    _ = ctx.work
    make_threadsafe(ctx)
    pool = ThreadPoolExecutor(max_workers=2)
    design = pool.submit(design_runs, ctx)       # TLC runs overlap with the python histories
    extraction = pool.submit(api_behaviours, ctx)
    run_histories(ctx)
    run_api(ctx, extraction.result())
    design.result()
    pool.shutdown()
    ctx.exhaustive = False
    ctx.evaluations = ctx.notes["api_calls_replayed"] + ctx.notes["history_events"]


def replay(ctx: Ctx, rec: dict) -> int:
    b = rec["behaviour"]
    if b["kind"] == "api":
        tr = ad.replay_api(b["beh"])
        verdicts = ctx.validate("TestCaseTrace", [tr], cfg="TestCaseTrace_api.cfg")
        sig = api_signature
    else:
        spec = dict(b["spec"])
        if spec.get("src_dir"):
            import random
            from pathlib import Path
            d = ctx.work / "sut"
            d.mkdir(parents=True, exist_ok=True)
            g = int(spec["module"].rsplit("_", 1)[1])
            (Path(d) / f"{spec['module']}.py").write_text(
                ad.generate_sut(random.Random(f"{rec['seed']}/{PROP}/sut{g}"), spec["module"]))
            spec["src_dir"] = str(d)
        tr = {"ev": ad.run_history(spec)["ev"]}
        verdicts = ctx.validate("TestCaseTrace", [tr], cfg="TestCaseTrace.cfg")
        sig = history_signature
    hit = False
    for clause, step in verdicts.get(0, []):
        ev = tr["ev"][step - 1]
        s = sig(ev, clause)
        print(clause, "at step", step, "->", s)
        if s == rec["signature"]:
            hit = True
            print("  ", ev["op"], "size", ev["pre_n"], "->", len(ev["post"]["st"]), ad.render(ev))
    if hit:
        print(f"VIOLATION property={PROP} replay=(this) signature={rec['signature']}")
        return 1
    print("OK (the recorded violation does not reproduce)")
    return 0

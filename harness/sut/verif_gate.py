"""Uninstrumented helper imported by generated SUT modules: harness-controlled blocking points.

point(name): announce arrival, then block until the harness releases that gate.
nap(): block forever without executing instrumented code (daemon thread, dies with the process).
"""

from __future__ import annotations

import threading
import time

_lock = threading.Lock()
_gates: dict[str, dict] = {}


def gate(name: str) -> dict:
    with _lock:
        g = _gates.get(name)
        if g is None:
            g = {"arrived": threading.Event(), "release": threading.Event(), "thread": None}
            _gates[name] = g
        return g


def point(name: str) -> None:
    g = gate(name)
    g["thread"] = threading.current_thread()
    g["arrived"].set()
    g["release"].wait()


def nap() -> None:
    while True:
        time.sleep(3600)


def reset() -> None:
    with _lock:
        _gates.clear()

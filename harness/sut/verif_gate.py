"""Uninstrumented helper imported by generated SUT modules: harness-controlled blocking points.

point(name): announce arrival, then block until the harness releases that gate.
nap(): block forever without executing instrumented code (daemon thread, dies with the process).
"""

from __future__ import annotations

import threading
import time

_lock = threading.Lock()
_gates: dict[str, dict] = {}


def gate(name: str) -> dict:
    with _lock:
        g = _gates.get(name)
        if g is None:
            g = {"arrived": threading.Event(), "release": threading.Event(), "thread": None}
            _gates[name] = g
        return g


_starts: dict[str, int] = {}


def started(name: str) -> None:
    """First statement of every generated test function: how often was it entered?"""
    with _lock:
        _starts[name] = _starts.get(name, 0) + 1


def starts(name: str) -> int:
    with _lock:
        return _starts.get(name, 0)


def point(name: str) -> None:
    g = gate(name)
    g["thread"] = threading.current_thread()
    g["arrived"].set()
    g["release"].wait()


class Slow:
    """A value whose == blocks at a gate the first time it is evaluated (the tracer evaluates the
    comparison inside its callback, after check() and before recording)."""

    __hash__ = object.__hash__

    def __init__(self, name: str) -> None:
        self.name = name
        self.calls = 0

    def __eq__(self, other) -> bool:
        self.calls += 1
        if self.calls == 1:
            point(self.name)
        return False


def nap() -> None:
    while True:
        time.sleep(3600)


def reset() -> None:
    with _lock:
        _gates.clear()
        _starts.clear()

"""C21 corpus: observable state leaks from one execution to the next inside a process.

Assertions on the leaking values (module globals `calls` and `ticks`, class field
`Ticket.issued`, the per-object `number`) cannot hold when the test case is executed again
in the same process; the filtering pass of the assertion generator has to drop them.
Everything else is deterministic.
"""

calls = 0
ticks = 0


class Ticket:
    issued = 0

    def __init__(self, label: str) -> None:
        Ticket.issued += 1
        self.label = label
        self.number = Ticket.issued
        if Ticket.issued % 3 == 1:
            # every third ticket of a process has this field: when the trace run saw it, an assertion on it
            # cannot even be evaluated in the next two executions (it errors), while the one on `number`
            # merely fails
            self.odd_one = True

    def describe(self) -> str:
        return f"{self.label}#{len(self.label)}"


def bump(x: int) -> int:
    global calls
    calls += 1
    return x + 1


def tick() -> int:
    global ticks
    ticks += 7
    return ticks


def double(x: int) -> int:
    return 2 * x

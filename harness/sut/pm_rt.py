"""Uninstrumented runtime for rendered PyMini programs: decisions and exception classes."""


class E1(Exception):
    pass


class E2(Exception):
    pass


def nx(d) -> bool:
    """Next decision of the vector (False once exhausted)."""
    k = d["k"]
    d["k"] = k + 1
    v = d["v"]
    return bool(v[k]) if k < len(v) else False


def nn(d):
    """Next decision as 1 / None (for `is None` style conditions)."""
    return 1 if nx(d) else None

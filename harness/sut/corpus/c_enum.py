"""Corpus: enum returning code (deterministic)."""
import enum

# the enum class is deliberately not listed: generated tests still refer to its members
__all__ = ["pick", "is_warm"]


class Color(enum.Enum):
    RED = 1
    GREEN = 2
    BLUE = 3


def pick(n: int) -> Color:
    if n % 3 == 0:
        return Color.RED
    if n % 3 == 1:
        return Color.GREEN
    return Color.BLUE


def is_warm(c: Color) -> bool:
    return c is Color.RED

"""Corpus: string code (deterministic)."""


def shout(s: str) -> str:
    if not s:
        return "!"
    return s.upper() + "!"


def count_vowels(s: str) -> int:
    n = 0
    for ch in s:
        if ch in "aeiou":
            n += 1
    return n


def first_word(s: str) -> str:
    parts = s.split()
    if len(parts) == 0:
        raise ValueError("empty")
    return parts[0]

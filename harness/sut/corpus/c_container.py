"""Corpus: container code (deterministic)."""


def total(xs: list[int]) -> int:
    t = 0
    for x in xs:
        t += x
    return t


def lookup(d: dict[str, int], key: str) -> int:
    if key in d:
        return d[key]
    return -1


def dedup(xs: list[int]) -> list[int]:
    out: list[int] = []
    for x in xs:
        if x not in out:
            out.append(x)
    return out

"""Corpus: float returning code (deterministic)."""


def half(x: float) -> float:
    return x / 2.0


def clamp01(x: float) -> float:
    if x < 0.0:
        return 0.0
    if x > 1.0:
        return 1.0
    return x


def mean(a: float, b: float) -> float:
    return (a + b) / 2.0

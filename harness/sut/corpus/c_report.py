"""Corpus: shapes that matter to the coverage report (deterministic module).

A line that is both the first line of branch-less code objects and the line of a predicate (lambdas in
a conditional expression), a branch-less function that is defined but hard to call usefully, a
predicate that is preceded by an expression that may raise."""


def chooser(flag: bool) -> str:
    pick = (lambda: "yes") if flag else (lambda: "no")
    return pick()


def never_needed() -> int:
    return 42


def first_positive(values: list) -> int:
    if values[0] > 0:
        return values[0]
    return -1


def share(total: int, parts: int) -> int:
    part = total // parts
    if part > 3:
        return part
    return 0

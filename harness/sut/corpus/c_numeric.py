"""Corpus: numeric code (deterministic)."""


def sign(x: int) -> int:
    if x > 0:
        return 1
    if x < 0:
        return -1
    return 0


def gcd(a: int, b: int) -> int:
    a, b = abs(a), abs(b)
    while b:
        a, b = b, a % b
    return a


def safe_div(a: int, b: int) -> int:
    if b == 0:
        raise ZeroDivisionError("b must not be zero")
    return a // b

"""Corpus: shapes whose handling iterates over sets/dicts of names (deterministic module).

An Enum with several methods (members `dir()` hides), callables with several optional parameters,
*args and **kwargs, and two module-level exception classes raised by the same function."""
import enum


class TooSmall(Exception):
    pass


class TooBig(Exception):
    pass


class Level(enum.Enum):
    LOW = 1
    MID = 2
    HIGH = 3

    def above(self, other: "Level") -> bool:
        return self.value > other.value

    def label(self) -> str:
        return self.name.lower()

    def bump(self) -> "Level":
        if self is Level.HIGH:
            return self
        return Level(self.value + 1)


def price(base: int, tax: int = 2, discount: int = 0, shipping: int = 5, *fees: int, **extras: int) -> int:
    total = base + tax - discount + shipping
    for fee in fees:
        total += fee
    for value in extras.values():
        total += value
    return total


def check(amount: int, low: int = 0, high: int = 100) -> int:
    if amount < low:
        raise TooSmall(amount)
    if amount > high:
        raise TooBig(amount)
    return amount - low

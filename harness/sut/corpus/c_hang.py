"""Corpus: a module whose tests can hang (for budget accounting under timeouts)."""


def countdown(n: int) -> int:
    steps = 0
    while n != 0:
        n -= 1
        steps += 1
    return steps


def parity(n: int) -> str:
    if n % 2 == 0:
        return "even"
    return "odd"

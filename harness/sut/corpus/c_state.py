"""Corpus: class with state (deterministic)."""


class Counter:
    def __init__(self, start: int = 0) -> None:
        self.value = start

    def inc(self, by: int = 1) -> int:
        if by < 0:
            raise ValueError("negative increment")
        self.value += by
        return self.value

    def reset(self) -> None:
        self.value = 0

    def is_big(self) -> bool:
        return self.value > 10

"""A module the SUT of C20 uses but whose names the exported test file does not import."""

import enum


class Shade(enum.Enum):
    DARK = 1
    LIGHT = 2


class Thing:
    class Part:
        pass

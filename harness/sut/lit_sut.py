"""Module under test for C20 (assertion rendering): enums and classes whose instances the
assertion observer has to assert on.  No public non-callable module globals except GLOBAL_SLOT
(set by the adapter for the "module global" position)."""

import enum as _enum

import lit_other as _other  # private alias: lit_other's names are NOT public names of this module


class Color(_enum.Enum):
    RED = 1
    GREEN = 2


class Level(_enum.IntEnum):
    LOW = 5
    HIGH = -5


class Tag(_enum.StrEnum):
    A = "a"
    Q = "it's"


class Perm(_enum.Flag):
    R = 1
    W = 2
    X = 4


class _Hidden(_enum.Enum):
    H = 1


class Outer:
    class Mode(_enum.Enum):
        ON = 1

    class Inner:
        pass


class Plain:
    pass


class Holder:
    """A watched object with one public field."""

    def __init__(self, field):
        self.field = field


class StaticHolder:
    """A watched object whose class carries one public static field (set by the adapter)."""


class Sized:
    def __len__(self):
        return 3


class SizedRaises:
    def __len__(self):
        raise ValueError("no length")


class _Private:
    pass


def make_local():
    class Local:
        pass

    return Local()


def make_dynamic():
    # a class created at run time: __module__ is this module, but it is not an attribute of it
    return type("Dynamic", (), {})()


def foreign_enum():
    return _other.Shade.DARK


def foreign_object():
    return _other.Thing()

"""Hand-written corpus of Python idioms outside the PyMini fragment (C01/C02/C03 spot checks).

Every function is pure up to the `log` list it appends to; `x` selects the path."""
import asyncio
import contextlib
import dataclasses
import enum
import functools

COUNTER = 0


def gfirst[T](xs: list[T], default: T) -> T:
    if xs:
        return xs[0]
    return default


class GStack[T]:
    def __init__(self) -> None:
        self.items: list[T] = []

    def push(self, v: T) -> int:
        self.items.append(v)
        if len(self.items) > 1:
            return -len(self.items)
        return len(self.items)


class Base:
    def greet(self, log):
        log.append("base")
        return "b"


class Child(Base):
    def greet(self, log):
        log.append("child")
        return super().greet(log) + "c"


def i_startswith_tuple(x, log):
    s = "alpha" if x % 2 else "beta"
    if s.startswith(("al", "ga")):
        log.append("al")
        return 1
    return 0


def i_endswith(x, log):
    s = "report.txt" if x % 2 else "report.csv"
    if s.endswith(".txt"):
        return 1
    return 0


def i_listcomp(x, log):
    ys = [v * 2 for v in range(x % 5) if v % 2 == 0]
    log.append(len(ys))
    return ys


def i_dictcomp(x, log):
    return {k: k * k for k in range(x % 4)}


def i_genexp(x, log):
    return sum(v for v in range(x % 6) if v != 3)


def i_slice(x, log):
    xs = list(range(10))
    a, b = x % 3, 3 + x % 4
    ys = xs[a:b]
    ys.append(-1)
    log.append(len(xs))
    return ys


def i_super(x, log):
    return Child().greet(log)


def i_with(x, log):
    class Ctx:
        def __enter__(self):
            log.append("enter")
            return self

        def __exit__(self, *a):
            log.append("exit")
            return x % 2 == 0

    with Ctx():
        if x % 3 == 0:
            raise KeyError("k")
        log.append("body")
    return len(log)


def i_match(x, log):
    match x % 4:
        case 0:
            return "zero"
        case 1 | 2:
            log.append("small")
            return "small"
        case _:
            return "other"


def i_generator(x, log):
    def gen(n):
        for i in range(n):
            if i == 2:
                continue
            yield i
        log.append("done")

    return list(gen(x % 5))


def i_closure(x, log):
    def add(n):
        def inner(m):
            return n + m + x
        return inner

    return add(1)(2)


def i_boolop(x, log):
    a, b = x % 2 == 0, x % 3 == 0
    if a and b or not a and x > 4:
        log.append("t")
        return True
    return False


def i_chained(x, log):
    if 0 < x % 7 <= 3 < 10:
        return 1
    return 0


def i_kwcall(x, log):
    return min(
        [x, 3, -x],
        key=abs,
        default=None,
    )


def i_walrus(x, log):
    if (y := x % 5) > 2:
        return y
    return -y


def i_fstring(x, log):
    return f"{x:>4}|{x % 3 == 0!r}"


def i_tryfinally(x, log):
    try:
        if x % 2:
            return "odd"
        log.append("even")
    finally:
        log.append("fin")
    return "end"


def i_nested_exc(x, log):
    try:
        try:
            [][x % 2 - 1 if x % 2 else 5]
        except IndexError:
            log.append("idx")
            raise ValueError("v") from None
    except ValueError:
        return "caught"
    return "no"


def i_lru(x, log):
    @functools.lru_cache(maxsize=None)
    def fib(n):
        return n if n < 2 else fib(n - 1) + fib(n - 2)

    return fib(x % 10)


def i_ternary_none(x, log):
    v = None if x % 2 else x
    return 0 if v is None else v + 1


def i_while_else(x, log):
    n = x % 4
    while n > 0:
        n -= 1
        if n == 2:
            break
    else:
        log.append("else")
    return n


def i_str_subclass_len(x, log):
    class S(str):
        def __len__(self):
            log.append("len")
            return 3

    s = S("abc")
    if s == "abd":
        return 1
    return 0


def i_in_iter(x, log):
    it = iter([1, 2, 3, 4])
    if 2 in it:
        log.append(next(it))
    return list(it)



def i_cmp_raises(x, log):
    other = "x" if x % 2 else 7
    try:
        if x < other:
            log.append("lt")
        else:
            log.append("ge")
    except TypeError:
        log.append("te")
        other = 0
    if x > other:
        log.append("gt")
    return len(log)


def i_eq_raises(x, log):
    class Bad:
        def __eq__(self, o):
            if x % 3 == 0:
                raise RuntimeError("eq")
            return x % 3 == 1

    r = []
    for _ in range(2):
        try:
            r.append(Bad() == 1)
        except RuntimeError:
            r.append("rt")
        log.append(len(r))
    return r


def i_nested_try_inline(x, log):
    table = {0: 0, 1: 5, 2: 2}
    try:
        value = table[x % 4]
        try:
            return 100 // value
        except ZeroDivisionError:
            log.append("zde")
            return -1
    except KeyError:
        log.append("ke")
        return -2


def i_except_tuple_subclass(x, log):
    for k in range(3):
        try:
            if (x + k) % 3 == 0:
                raise KeyError(k)
            if (x + k) % 3 == 1:
                raise FileNotFoundError(k)
            log.append("none")
        except (LookupError, ValueError):
            log.append("lookup")
        except (OSError, TypeError) as ex:
            log.append(type(ex).__name__)
    else:
        log.append("else")
    return len(log)


def i_huge_ints(x, log):
    a, b = 2**53 + 1 + x, 2**53 + x % 3
    r = []
    if a <= b:
        r.append("le")
    if a > b:
        r.append("gt")
    if 10**30 + x < 10**30 + 7:
        r.append("lt")
    if a == b:
        r.append("eq")
    return r


def i_float_cmp(x, log):
    a = float("nan") if x % 4 == 0 else x / 3
    r = []
    if a < 1.0:
        r.append("lt")
    if a != a:
        r.append("nan")
    if a >= float("inf"):
        r.append("inf")
    if -0.0 == 0.0 and x % 2:
        r.append("zero")
    return r


def i_str_cmp(x, log):
    s = ["", "a", "abc", "abd", "\u00e9", "ABC"][x % 6]
    r = []
    if s == "abc":
        r.append("eq")
    if s < "abd":
        r.append("lt")
    if "b" in s:
        r.append("in")
    if s not in ("a", "abc"):
        r.append("notin")
    if s.encode() == b"abc":
        r.append("bytes")
    if s.lower() is s:
        r.append("is")
    return r


def i_container_in(x, log):
    d = {1: "a", 2: "b", (3, 4): "c"}
    r = []
    if x in d:
        r.append("key")
    if (x, x + 1) in d:
        r.append("tuple")
    if x in {5, 6, 7}:
        r.append("set")
    if x in [0, [1], 12]:
        r.append("list")
    if x not in range(2, 6):
        r.append("range")
    return r


def i_class_features(x, log):
    class P:
        __slots__ = ("_v",)
        count = 0

        def __init__(self, v):
            self._v = v
            P.count += 1

        @property
        def v(self):
            log.append("get")
            return self._v

        @v.setter
        def v(self, nv):
            if nv < 0:
                raise ValueError("neg")
            self._v = nv

        @staticmethod
        def twice(n):
            return 2 * n

        @classmethod
        def make(cls, n):
            return cls(cls.twice(n))

        def __lt__(self, o):
            log.append("lt")
            return self._v < o._v

    p, q = P.make(x), P(3)
    try:
        p.v = x - 4
    except ValueError:
        log.append("neg")
    return (p < q, p.v, P.count)


def i_dataclass_enum(x, log):
    class Color(enum.Enum):
        RED = 1
        BLUE = 2

    @dataclasses.dataclass(order=True)
    class Pt:
        a: int
        b: int = 0

    c = Color.RED if x % 2 else Color.BLUE
    if c is Color.RED:
        log.append("red")
    if Pt(x, 1) > Pt(3, 0):
        log.append("gt")
    return (c.name, Pt(x) == Pt(x, 0))


def i_set_nested_comp(x, log):
    grid = [[r * c for c in range(3) if c != x % 3] for r in range(x % 3 + 1)]
    flat = {v for row in grid for v in row if v}
    total = sum(v for v in sorted(flat))
    log.append(len(grid))
    return (grid, sorted(flat), total)


def i_comp_cond_expr(x, log):
    v = 10
    ys = [(v if i % 2 else -v) for i in range(x % 4)]
    zs = [w for w in ys if w > 0 or x == 3]
    return (ys, zs, v)


def i_lambda_sorted(x, log):
    words = ["pear", "fig", "apple", "kiwi"][: x % 5]
    key = (lambda w: len(w)) if x % 2 else (lambda w: w)
    out = sorted(words, key=key, reverse=x % 3 == 0)
    return any(len(w) > 4 for w in out), all(w for w in out), out


def i_star_args(x, log):
    def f(a, *rest, k=1, **kw):
        if rest:
            log.append(len(rest))
        return a + sum(rest) * k + len(kw)

    args = list(range(x % 4 + 1))
    first, *mid = args
    return f(*args, k=2, **{"z": 1} if x % 2 else {}), first, mid


def i_global_nonlocal(x, log):
    global COUNTER
    total = 0

    def bump(n):
        nonlocal total
        total += n
        if total > 3:
            return True
        return False

    hit = [bump(i) for i in range(x % 4)]
    COUNTER += 1
    del hit[:1]
    return (total, hit)


def i_try_else_raise_from(x, log):
    try:
        try:
            v = int("12" if x % 2 else "zz")
        except ValueError as ex:
            raise KeyError("bad") from ex
        else:
            log.append("else")
        finally:
            log.append("fin")
    except KeyError as ex:
        return type(ex.__cause__).__name__
    return v


def i_while_true(x, log):
    n, steps = x, 0
    while True:
        if n <= 1:
            break
        n = n // 2 if n % 2 == 0 else 3 * n + 1
        steps += 1
        if steps > 20:
            break
    return steps


def i_for_else_break(x, log):
    for i in range(2, 6):
        if x % i == 0 and x:
            log.append(i)
            break
    else:
        return -1
    return i


def i_aug_subscr_attr(x, log):
    class Box:
        n = 0

    d = {"a": 1}
    xs = [1, 2, 3]
    d["a"] += x
    d.setdefault("b", []).append(x)
    xs[x % 3] *= 2
    xs[0:2] = [9]
    del d["a"]
    b = Box()
    b.n += x
    b.n -= 1
    del xs[-1]
    return (d, xs, b.n, Box.n)


def i_match_patterns(x, log):
    @dataclasses.dataclass
    class Pt:
        a: int
        b: int

    subject = [Pt(0, x), {"k": x, "z": 1}, [1, x, 3, 4], (x,), "s", None, Pt(x, x)][x % 7]
    match subject:
        case Pt(a=0, b=b):
            return ("pt0", b)
        case Pt(a=a, b=b) if a == b:
            return ("diag", a)
        case {"k": k, **rest}:
            return ("map", k, sorted(rest))
        case [1, *mid, 4]:
            return ("seq", mid)
        case (only,):
            return ("one", only)
        case str() | None:
            log.append("strnone")
            return "sn"
    return "nomatch"


def i_yield_from_send(x, log):
    def inner():
        got = yield 1
        log.append(got)
        if got:
            yield got * 2
        return "r"

    def outer():
        res = yield from inner()
        yield res

    g = outer()
    out = [next(g)]
    try:
        out.append(g.send(x % 3))
        out.append(next(g))
        out.append(next(g))
    except StopIteration:
        out.append("stop")
    return out


def i_with_multi_suppress(x, log):
    @contextlib.contextmanager
    def cm(tag):
        log.append("in" + tag)
        try:
            yield tag
        finally:
            log.append("out" + tag)

    with cm("a") as a, cm("b") as b:
        with contextlib.suppress(ZeroDivisionError):
            log.append(1 // (x % 2))
            log.append("after")
    return a + b


def i_async(x, log):
    class ACtx:
        async def __aenter__(self):
            log.append("aenter")
            return self

        async def __aexit__(self, *a):
            log.append("aexit")
            return False

    async def agen(n):
        for i in range(n):
            yield i

    async def main():
        total = 0
        async with ACtx():
            async for v in agen(x % 4):
                if v == 1:
                    continue
                total += v
        return total + await asyncio.sleep(0, result=1)

    return asyncio.run(main())


def i_except_star(x, log):
    def boom():
        excs = []
        if x % 2:
            excs.append(ValueError("v"))
        if x % 3 == 0:
            excs.append(KeyError("k"))
        if excs:
            raise ExceptionGroup("g", excs)

    try:
        boom()
    except* ValueError:
        log.append("ve")
    except* LookupError:
        log.append("le")
    else:
        log.append("clean")
    return len(log)


def i_recursion_default(x, log, _memo={}):
    def depth(n, acc=()):
        if n == 0:
            return acc
        return depth(n - 1, acc + (n,))

    if x in _memo:
        log.append("memo")
    _memo[x] = True
    return depth(x % 5)


def i_assert_del(x, log):
    v = x
    try:
        assert v % 4, "div4"
        del v
        log.append("deleted")
        return v
    except AssertionError as ex:
        return str(ex)
    except UnboundLocalError:
        return "unbound"


def i_bool_len_protocol(x, log):
    # the probe of a truthiness predicate evaluates the same operator as the jump (by design), so
    # __bool__/__len__ themselves do not log
    class Bag:
        def __init__(self, n):
            self.n = n

        def __len__(self):
            return self.n

    class Flag:
        def __bool__(self):
            return x % 2 == 1

    r = []
    if Bag(x % 3):
        r.append("bag")
    if not Flag():
        r.append("notflag")
    if Bag(0) or Flag():
        r.append("or")
    while Bag(0):
        r.append("never")
    return r


def i_dynamic_attrs(x, log):
    class Lazy:
        def __init__(self):
            self.real = x

        def __getattr__(self, name):
            log.append("getattr:" + name)
            if name.startswith("v"):
                return len(name)
            raise AttributeError(name)

    class Strict:
        def __init__(self):
            object.__setattr__(self, "seen", [])

        def __getattribute__(self, name):
            if not name.startswith("__") and name != "seen":
                object.__getattribute__(self, "seen").append(name)
            return object.__getattribute__(self, name)

        def __setattr__(self, name, value):
            log.append("set:" + name)
            object.__setattr__(self, name, value)

    lz, st = Lazy(), Strict()
    st.a = lz.real + lz.v1
    st.a += 1
    try:
        lz.missing
    except AttributeError:
        log.append("missing")
    lz.w = 3
    return (st.a, st.seen, lz.w, hasattr(lz, "nope"))


def i_descriptors(x, log):
    class Desc:
        def __set_name__(self, owner, name):
            self.name = "_" + name

        def __get__(self, obj, objtype=None):
            log.append("dget")
            return getattr(obj, self.name, 0) if obj is not None else self

        def __set__(self, obj, value):
            log.append("dset")
            setattr(obj, self.name, value)

    class Holder:
        d = Desc()

        @functools.cached_property
        def heavy(self):
            log.append("heavy")
            return [x]

        @property
        def boom(self):
            log.append("boom")
            if x % 2:
                raise ValueError("odd")
            return x

    h = Holder()
    h.d = x
    r = [h.d, h.heavy, h.heavy]
    try:
        r.append(h.boom)
    except ValueError:
        r.append("ve")
    return r


def i_getattr_keyerror(x, log):
    class Record:
        def __init__(self, data):
            self._data = data

        def __getattr__(self, name):
            return self._data[name]

    class Tag:
        def __init__(self, title):
            self.title = title

    def label(item, fallback):
        try:
            return item.title
        except KeyError:
            log.append("ke")
            return fallback

    out = []
    for item in (Record({}), Tag("news"), Record({"title": x})):
        out.append(label(item, "untitled"))
        if len(out) > x % 4:
            break
    return out


def i_raising_protocols(x, log):
    class Odd:
        def __bool__(self):
            raise ValueError("bool")

        def __len__(self):
            raise TypeError("len")

        def __contains__(self, item):
            raise KeyError(item)

        def __iter__(self):
            raise OSError("iter")

        def __hash__(self):
            raise RuntimeError("hash")

        @property
        def prop(self):
            raise LookupError("prop")

    o = Odd()
    tests = [lambda: 1 if o else 0, lambda: 3 in o, lambda: [v for v in o], lambda: o in {1: 2},
             lambda: o.prop, lambda: o == o, lambda: o < 3, lambda: o.missing, lambda: o is None]
    out = []
    for k, t in enumerate(tests):
        if (k + x) % 3 == 0:
            continue
        try:
            out.append(t())
        except (ValueError, TypeError, LookupError, OSError, RuntimeError, AttributeError) as ex:
            out.append(type(ex).__name__)
        if out[-1] is True:
            log.append(k)
    return out



def i_in_generator_body_compares(x, log):
    def gen(limit):
        i = 0
        while i < limit:
            yield i
            i += 1

    r = []
    if x in gen(5):
        r.append("in")
    if x not in gen(x % 3):
        r.append("notin")
    return r


def i_in_iter_raises_then_list(x, log):
    class Boom(Exception):
        pass

    class BadIter:
        def __init__(self, n):
            self.n = n

        def __iter__(self):
            return self

        def __next__(self):
            if self.n > 2:
                raise Boom("next")
            self.n += 1
            return self.n

    def member(v, c):
        try:
            if v in c:
                return "in"
            return "nin"
        except Boom:
            return "caught"

    return [member(x, BadIter(0)), member(x, [1, 2, x]), member(x, BadIter(x % 4)), member(9, (1, 2))]



def i_pep695_generics(x, log):
    def pick[K, V](d: dict[K, V], k: K, default: V) -> V:
        if k in d:
            return d[k]
        return default

    type Pair[A] = tuple[A, A]
    s = GStack[int]()
    return (gfirst([x] * (x % 2), -1), s.push(x), s.push(x + 1), pick({1: "a"}, x % 3, "z"), Pair.__name__)


def i_operator_raises_own_exception(x, log):
    class Mine(Exception):
        pass

    class Odd:
        def __init__(self, v):
            self.v = v

        def __eq__(self, o):
            if self.v % 2:
                raise Mine("eq")
            return self.v == o

        __hash__ = None

        def __lt__(self, o):
            if self.v % 3 == 0:
                raise Mine("lt")
            return self.v < o

        def __contains__(self, item):
            if self.v % 4 == 1:
                raise Mine("contains")
            return item == self.v

    o = Odd(x)
    out = []
    for probe in (lambda: "eq" if o == 2 else "ne", lambda: "lt" if o < 4 else "ge", lambda: "in" if 6 in o else "nin"):
        try:
            out.append(probe())
        except Mine as ex:
            out.append(str(ex))
            log.append(len(out))
    return out


FUNCS = [n for n in sorted(globals()) if n.startswith("i_")]

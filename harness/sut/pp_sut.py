"""Subject of the pipeline replay (C19/C22): a class with observable state; some methods have
branches that depend on the state (`toggle` on separate lines, `get` on one line: same line
coverage, different branch coverage), others are straight-line (a repeated call adds no coverage)."""


class Switch:
    def __init__(self):
        self.on = False
        self.n = 0

    def flip(self):
        self.on = not self.on

    def toggle(self):
        if self.on:
            self.on = False
        else:
            self.on = True

    def get(self):
        return "on" if self.on else "off"

    def add(self, k):
        self.n += k
        return self.n

"""Subject of the pipeline replay (C19/C22): a class with observable state; some methods have
branches that depend on the state (`toggle` on separate lines, `get` on one line: same line
coverage, different branch coverage), others are straight-line (a repeated call adds no coverage)."""


import enum

# the enum class is deliberately not listed: exported tests still refer to its members
__all__ = ["Switch", "mode_of"]


class Mode(enum.Enum):
    OFF = 0
    ON = 1


class Switch:
    class Mark:
        """A class nested in a class (its instances are rendered as pp_sut.Switch.Mark)."""

        def __init__(self, tag=0):
            self.tag = tag

    def __init__(self):
        self.on = False
        self.n = 0
        self.log = [[0]]

    def note(self):
        """Changes a nested container in place (the outer list object stays the same)."""
        self.log[0].append(self.n + len(self.log[0]))

    @property
    def total(self):
        return self.n * 2

    def mark(self):
        return Switch.Mark(self.n)

    def boom(self):
        raise RuntimeError("boom")

    def flip(self):
        self.on = not self.on

    def toggle(self):
        if self.on:
            self.on = False
        else:
            self.on = True

    def get(self):
        return "on" if self.on else "off"

    def add(self, k):
        self.n += k
        return self.n


def mode_of(switch):
    return Mode.ON if switch.on else Mode.OFF

"""SUT 2 for C15: a dataclass, an abstract base with two implementations, generators of the same
type (several alternatives for change_random_call), fields of equal type (change_random_field_call),
optional/union parameters, callables returning callables."""
import dataclasses
import enum
from collections.abc import Callable, Iterable, Mapping, Sequence


class Level(enum.Enum):
    LOW = "low"
    HIGH = "high"


@dataclasses.dataclass
class Item:
    name: str
    price: float = 1.0
    count: int = 1
    level: Level = Level.LOW

    first = "a"
    second = "b"
    third = "c"

    def cost(self) -> float:
        return self.price * self.count

    def rename(self, name: str) -> "Item":
        return Item(name, self.price, self.count)

    def split(self, n: int) -> list["Item"]:
        return [self] * n


class Store:
    capacity = 100
    reserve = 5
    opened = False

    def __init__(self, items: list[Item] | None = None, owner: str | None = None) -> None:
        self.items = items or []
        self.owner = owner

    @property
    def size(self) -> int:
        return len(self.items)

    @property
    def best(self) -> Item:
        return self.items[0]

    def add(self, item: Item) -> "Store":
        self.items.append(item)
        return self

    def find(self, pred: Callable[[Item], bool]) -> Item | None:
        for i in self.items:
            if pred(i):
                return i
        return None

    def cheapest(self) -> Item:
        return min(self.items, key=lambda i: i.price)

    def newest(self) -> Item:
        return self.items[-1]

    def prices(self) -> dict[str, float]:
        return {i.name: i.price for i in self.items}

    def take(self, names: Sequence[str], strict: bool = False) -> list[Item]:
        return [i for i in self.items if i.name in names]

    def index(self, by: Mapping[str, int], extra: Iterable[int] = ()) -> int:
        return len(by)


class Pricing:
    def __init__(self, base: float) -> None:
        self.base = base

    def quote(self, item: Item) -> float:
        return self.base + item.price


class Discount(Pricing):
    def __init__(self, base: float, pct: int) -> None:
        super().__init__(base)
        self.pct = pct

    def quote(self, item: Item) -> float:
        return super().quote(item) * (100 - self.pct) / 100


def make_item(name: str, level: Level) -> Item:
    return Item(name, level=level)


def default_item() -> Item:
    return Item("d")

def bundle(a: Item, b: Item) -> Item:
    return Item(a.name + b.name, a.price + b.price)


def open_store(owner: str, *items: Item) -> Store:
    return Store(list(items), owner)


def total(store: Store, pricing: Pricing) -> float:
    return sum(pricing.quote(i) for i in store.items)


def selector(level: Level) -> Callable[[Item], bool]:
    return lambda i: i.level == level


def by_key(key):
    def inner(item):
        return getattr(item, key)
    return inner


def map_items(store: Store, fn: Callable[[Item], Item], times: int = 1) -> Store:
    return Store([fn(i) for i in store.items])


def untyped(a, b, *rest, flag=False, **opts):
    return a


def level_of(item: Item | None, fallback: Level | str) -> Level:
    return Level.LOW

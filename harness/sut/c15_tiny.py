"""Tiny SUT for the C15 API replay (P2): abstract statements are rendered as calls of these."""


class A:
    pass


class B:
    pass


def mk(*args):
    return A()


def sink(*args):
    return None

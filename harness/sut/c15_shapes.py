"""SUT 1 for C15 (only signatures matter; nothing here is executed by the check): classes with
constructors needing other classes, methods, class-level fields and properties, enums,
higher-order functions, typed collections, *args/**kwargs, positional-only parameters."""
import enum
from collections.abc import Callable
from typing import Any


class Color(enum.Enum):
    RED = 1
    GREEN = 2
    BLUE = 3


class Mode(enum.IntFlag):
    R = 1
    W = 2
    X = 4


class Point:
    origin_label = "o"
    dims = 2

    def __init__(self, x: int, y: float = 0.0) -> None:
        self.x = x
        self.y = y

    @property
    def quadrant(self) -> int:
        return 1

    @property
    def color(self) -> Color:
        return Color.RED

    def shift(self, dx: int, dy: float) -> "Point":
        return Point(self.x + dx, self.y + dy)

    def norm(self) -> float:
        return (self.x ** 2 + self.y ** 2) ** 0.5

    def paint(self, c: Color) -> str:
        return f"{c.name}:{self.x}"


class Point3(Point):
    depth = 3

    def __init__(self, x: int, y: float, z: complex) -> None:
        super().__init__(x, y)
        self.z = z

    def flat(self) -> Point:
        return Point(self.x, self.y)


class Segment:
    closed = True
    label = "s"

    def __init__(self, a: Point, b: Point, color: Color = Color.RED) -> None:
        self.a = a
        self.b = b
        self.color = color

    @property
    def head(self) -> Point:
        return self.a

    def length(self) -> float:
        return abs(self.a.norm() - self.b.norm())

    def mid(self) -> Point:
        return Point((self.a.x + self.b.x) // 2, (self.a.y + self.b.y) / 2)

    def points(self) -> list[Point]:
        return [self.a, self.b]

    @staticmethod
    def unit() -> "Segment":
        return Segment(Point(0), Point(1))

    @classmethod
    def between(cls, ps: list[Point]) -> "Segment":
        return cls(ps[0], ps[-1])


class Bag:
    limit = 10

    def __init__(self, items: list[int], names: dict[str, Point] | None = None) -> None:
        self.items = items
        self.names = names or {}

    def put(self, item: int, *more: int, **kw: str) -> int:
        self.items.append(item)
        return len(self.items) + len(more) + len(kw)

    def total(self) -> int:
        return sum(self.items)

    def pair(self) -> tuple[int, str]:
        return (len(self.items), "n")

    def keys(self) -> set[str]:
        return set(self.names)

    def each(self, f: Callable[[int], Any]) -> list:
        return [f(i) for i in self.items]


def apply(f: Callable[[int], int], x: int) -> int:
    return f(x)


def make_adder(n: int):
    def add(m):
        return n + m
    return add


def compose(f: Callable, g: Callable) -> Callable:
    return lambda *a: f(g(*a))


def pick(ps: list[Point], i: int) -> Point:
    return ps[i % len(ps)]


def merge(a: dict[str, int], b: tuple[int, str], c: set[str]) -> int:
    return len(a) + len(b) + len(c)


def anything(x, y=None, /, z: Any = 3):
    return x


def kind_of(t: type) -> str:
    return t.__name__


def color_of(p: Point) -> Color:
    return Color.RED if p.x > 0 else Color.BLUE


def mode_of(m: Mode, flag: bool) -> Mode:
    return m


def route(seg: Segment, bag: Bag, flag: bool, data: bytes, z: complex) -> str:
    return "r"


def deep(p3: Point3, grid: list[list[int]], table: dict[str, list[Point]]) -> Point3:
    return p3

"""Tiny deterministic module under test for the master/worker scenarios (C33)."""


def classify(x: int, y: int) -> int:
    if x > y:
        return 1
    if x == y:
        return 0
    return -1


def clamp(v: int) -> int:
    if v < 0:
        return 0
    if v > 10:
        return 10
    return v

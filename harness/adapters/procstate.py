"""C30 adapter: histories of test cases on the real TestCaseExecutor, process state projected."""

from __future__ import annotations

import json
import logging
import os
import sys
from pathlib import Path

SUT = '''
import logging
import os
import random
import sys

COUNTER = 0
R = random.Random(1)


def p_print():
    print("hello from the SUT")
    return 1


def p_raise():
    raise ValueError("boom")


def p_close_stdout():
    sys.stdout.close()
    return 2


def p_close_fd():
    os.close(1)
    return 3


def p_log_disable():
    logging.disable(logging.CRITICAL)
    return 4


def p_seed():
    random.seed(12345)
    return 5


def p_draw():
    if random.random() < 0.5:
        return 6
    return 7


def p_draw_inst():
    if R.random() < 0.5:
        return 10
    return 11


def p_log_hang():
    logging.disable(logging.CRITICAL)
    k = 0
    while True:
        k += 1


def p_mutate_global():
    global COUNTER
    COUNTER += 1
    if COUNTER > 1:
        return 8
    return 9
'''


def _state(base) -> dict:
    from pynguin.utils import randomness  # noqa: PLC0415

    def fd_open(fd):
        try:
            os.fstat(fd)
            return True
        except OSError:
            return False

    return {
        "stdout_same": sys.stdout is base["stdout"], "stderr_same": sys.stderr is base["stderr"],
        "fd0_open": fd_open(0), "fd1_open": fd_open(1), "fd2_open": fd_open(2),
        "log_same": logging.root.manager.disable == base["log"],
        "rng_same": randomness.RNG.getstate() == base["rng"],
    }


PRELOADED: dict = {}


def preload(workdir) -> None:
    """Instrument the SUT once in the parent; forked children inherit module and registry."""
    import pynguin.configuration as config  # noqa: PLC0415
    import pynguin.generator as gen  # noqa: PLC0415
    from pynguin.utils import randomness  # noqa: PLC0415

    from harness.adapters import pyn  # noqa: PLC0415

    wd = Path(workdir)
    wd.mkdir(parents=True, exist_ok=True)
    (wd / "vproc_sut.py").write_text(SUT)
    config.configuration.seeding.seed = 20260921
    randomness.RNG.seed(20260921)
    gen._patch_random()
    PRELOADED["sp"], _ = pyn.load_sut("vproc_sut", wd)


def run_history(args) -> dict:
    """Executed in a forked child: one fresh interpreter state per history."""
    beh, workdir, solo = args[:3]
    exec_timeout = args[3] if len(args) > 3 else 3
    from pynguin.utils import randomness  # noqa: PLC0415

    from harness.adapters import pyn  # noqa: PLC0415

    wd = Path(workdir)
    wd.mkdir(parents=True, exist_ok=True)
    mod = "vproc_sut"
    if not (wd / f"{mod}.py").exists():
        (wd / f"{mod}.py").write_text(SUT)
    prev_disable = logging.root.manager.disable
    logging.disable(logging.NOTSET)
    import pynguin.configuration as config  # noqa: PLC0415
    import pynguin.generator as gen  # noqa: PLC0415

    config.configuration.seeding.seed = 20260921
    randomness.RNG.seed(20260921)
    gen._patch_random()  # as generator._setup_and_check does before loading the SUT
    if "sp" in PRELOADED:
        sp = PRELOADED["sp"]
    else:
        sp, _ = pyn.load_sut(mod, wd)
    executor = pyn.make_executor(sp, exec_timeout)
    base = {"stdout": sys.stdout, "stderr": sys.stderr, "log": logging.root.manager.disable,
            "rng": randomness.RNG.getstate()}
    evs = []
    for steps in beh["tests"]:
        test = pyn.make_test([f"var_{i} = p_{s}()" for i, s in enumerate(steps)])
        res = executor.execute(test)
        proj = pyn.result_projection(sp, res)
        st = _state(base)
        key = json.dumps([proj["timeout"], proj["lines"], proj["pred_true"], proj["pred_false"],
                          proj["exceptions"]], sort_keys=True)
        ev = {"steps": list(steps), "res": key, "timeout": proj["timeout"] and "log_hang" not in steps,
              "hidden_state": "mutate_global" in steps, **st}
        evs.append(ev)
        # put the process back into a sane state for OUR bookkeeping only (not part of the verdict):
        # nothing -- later test cases must see what the executor left behind
    logging.disable(prev_disable)
    return {"ev": evs}

"""End-to-end runner for C21: harness.adapters.e2e_runner plus observation of the assertion generator.

usage: python -m harness.adapters.e2e_kills_runner cfg.json outdir      (same as e2e_runner)

Additional wrappers are installed at run time (no repository hooks) BEFORE e2e_runner.main()
installs its own, so the events of both land in <outdir>/events.ndjson:

  Min     one real MutationAnalysisAssertionGenerator._handle_add_assertions call: assertions
          before, what the real mutation executor answered for every mutant (observed at
          _execute_test_case_on_mutant), the assertions left, the calls of
          _select_minimal_assertions inside, the reported statistics
          (harness.adapters.setcover.observe_handle)
  Rerun   afterwards the real mutants are executed once more on the tests as they are now
  Kept    every test case re-executed on the UNMUTATED module with the real
          RemoteAssertionVerificationObserver: phase "assertgen" right after the assertion
          generator returned (plain in-process executor, and the filtering executor when it is a
          different one), phase "final" right before the export (after statement minimisation)
"""

from __future__ import annotations

import json
import sys
from pathlib import Path


def install(out: Path) -> None:  # noqa: C901
    evf = out / "events.ndjson"

    def emit(ev: str, **kw) -> None:
        with evf.open("a") as f:
            f.write(json.dumps({"ev": ev, **kw}, default=str) + "\n")

    import libcst as cst  # noqa: PLC0415
    import pynguin.assertion.assertiongenerator as ag  # noqa: PLC0415
    import pynguin.assertion.assertiontraceobserver as ato  # noqa: PLC0415
    import pynguin.generator as gen  # noqa: PLC0415

    from harness.adapters import setcover  # noqa: PLC0415

    state = {"executor": None}

    # ------------------------------------------------------------------ Min / Rerun
    orig_handle = ag.MutationAnalysisAssertionGenerator._handle_add_assertions  # noqa: SLF001

    def handle(self, test_cases):
        events = setcover.observe_handle(self, test_cases, lambda: orig_handle(self, test_cases), rerun=True)
        for e in events:
            name = e.pop("ev")
            emit(name, **e)
        if events and events[0].get("err"):
            raise RuntimeError("C21 runner: _handle_add_assertions raised: " + events[0]["err"])

    ag.MutationAnalysisAssertionGenerator._handle_add_assertions = handle  # noqa: SLF001

    # ------------------------------------------------------------------ Kept
    def verify(executor, test_cases, phase: str, where: str) -> None:
        try:
            with executor.temporarily_add_remote_observer(ato.RemoteAssertionVerificationObserver()):
                results = list(executor.execute_multiple(test_cases))
        except Exception as ex:  # noqa: BLE001
            emit("KeptError", phase=phase, where=where, err=f"{type(ex).__name__}: {ex}")
            return
        for ti, (test, res) in enumerate(zip(test_cases, results)):
            vt = res.assertion_verification_trace
            bad, detail, n = [], [], 0
            stmts = test.statements()
            flat = {}
            for s, st in enumerate(stmts):
                for i, a in enumerate(st.assertions):
                    n += 1
                    flat[s, i] = n
            for how, d in (("failed", vt.failed), ("error", vt.error)):
                for s, idxs in d.items():
                    for i in idxs:
                        bad.append(flat.get((s, i), 0))
                        a = stmts[s].assertions[i] if s < len(stmts) and i < len(stmts[s].assertions) else None
                        detail.append({"stmt": s, "idx": i, "how": how, "kind": type(a).__name__,
                                       "assertion": repr(a),
                                       "code": cst.Module(body=[stmts[s].node]).code.strip() if s < len(stmts) else ""})
            emit("Kept", phase=phase, where=where, test=ti, n=n, bad=sorted(bad), detail=detail,
                 tmo=bool(res.timeout), exc=sorted(res.exceptions), code=test.to_code() if detail else "")

    orig_visit = ag.AssertionGenerator.visit_test_suite_chromosome

    def visit(self, chromosome):
        r = orig_visit(self, chromosome)
        tests = [c.test_case for c in chromosome.test_case_chromosomes]
        verify(self._plain_executor, tests, "assertgen", "plain")  # noqa: SLF001
        if self._filtering_executor is not self._plain_executor:  # noqa: SLF001
            verify(self._filtering_executor, tests, "assertgen", "filter")  # noqa: SLF001
        return r

    ag.AssertionGenerator.visit_test_suite_chromosome = visit

    orig_ga = gen._generate_assertions  # noqa: SLF001

    def generate_assertions(executor, generation_result, test_cluster):
        state["executor"] = executor
        return orig_ga(executor, generation_result, test_cluster)

    gen._generate_assertions = generate_assertions  # noqa: SLF001

    orig_exp = gen._export_chromosome  # noqa: SLF001

    def export_chromosome(chromosome, *a, **k):
        if state["executor"] is not None:
            tests = [c.test_case for c in chromosome.test_case_chromosomes]
            if any(t.get_assertions() for t in tests):
                verify(state["executor"], tests, "final", "plain")
        return orig_exp(chromosome, *a, **k)

    gen._export_chromosome = export_chromosome  # noqa: SLF001


def main() -> int:
    out = Path(sys.argv[2])
    out.mkdir(parents=True, exist_ok=True)
    install(out)
    from harness.adapters import e2e_runner  # noqa: PLC0415

    return e2e_runner.main()


if __name__ == "__main__":
    sys.exit(main())

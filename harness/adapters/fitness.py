"""Abstract registry / execution trace -> real SubjectProperties / ExecutionTrace; every public
fitness, coverage and goal function of pynguin is called on them and what it returned is recorded.

Nothing here decides a property: the recorded values are order-embedded (floats -> ranks) and
TLC evaluates the clauses of FitnessTrace.tla on them.
"""

from __future__ import annotations

import itertools
import math
from fractions import Fraction

import networkx as nx
from bytecode import BasicBlock, Instr

import pynguin.ga.computations as ff
import pynguin.ga.coveragegoals as bg
import pynguin.ga.fitness_metrics as fm
import pynguin.ga.testcasechromosome as tcc
import pynguin.ga.testsuitechromosome as tsc
import pynguin.instrumentation.controlflow as cf
from pynguin.instrumentation.tracer import (
    CodeObjectMetaData,
    ExecutionTrace,
    LineMetaData,
    PredicateMetaData,
    SubjectProperties,
)
from pynguin.testcase.execution_result import ExecutionResult
from pynguin.utils.orderedset import OrderedSet

INF = float("inf")
#: representatives of the abstract distances P < Q; the first one makes every fitness a multiple
#: of 1/4 (normalise(1.0) = 1/2, normalise(3.0) = 3/4), so the model value can be compared exactly
PALETTES = [(1.0, 3.0), (0.5, 7.0), (5e-324, 1e308), (0.1, 1e6), (2.0 ** -30, 2.0 ** 40)]
_CODE = compile("pass", "<verif>", "exec")


# ----------------------------------------------------------------------------- registry
def _new_graph() -> cf.CFG:
    g = cf.CFG.__new__(cf.CFG)
    cf.ProgramGraph.__init__(g)
    g._bytecode_cfg = None  # noqa: SLF001
    return g


def _node(i: int) -> cf.BasicBlockNode:
    return cf.BasicBlockNode(index=i, basic_block=BasicBlock([Instr("NOP")]))


def _build_cfg(k: int, nested: bool):
    """Real CFG with k predicate nodes: nested ifs or ifs in sequence. Returns (cfg, pred nodes)."""
    g = _new_graph()
    entry, exit_ = cf.ArtificialNode.ENTRY, cf.ArtificialNode.EXIT
    g.add_node(entry)
    g.add_node(exit_)
    idx = itertools.count()
    preds = []
    if k == 0:
        n = _node(next(idx))
        g.add_node(n)
        g.add_edge(entry, n)
        g.add_edge(n, exit_)
        return g, preds
    preds = [_node(next(idx)) for _ in range(k)]
    for n in preds:
        g.add_node(n)
    g.add_edge(entry, preds[0])
    for i, n in enumerate(preds):
        leaf = _node(next(idx))
        g.add_node(leaf)
        nxt = preds[i + 1] if i + 1 < k else None
        if nested:
            # if p_i: (next predicate | leaf) else: leaf
            if nxt is not None:
                g.add_edge(n, nxt, branch_value=True)
                g.add_edge(n, leaf, branch_value=False)
                g.add_edge(leaf, exit_)
            else:
                other = _node(next(idx))
                g.add_node(other)
                g.add_edge(n, other, branch_value=True)
                g.add_edge(n, leaf, branch_value=False)
                g.add_edge(leaf, exit_)
                g.add_edge(other, exit_)
        else:
            # if p_i: leaf ; then continue with the next predicate
            after = nxt if nxt is not None else exit_
            g.add_edge(n, leaf, branch_value=True)
            g.add_edge(leaf, after)
            g.add_edge(n, after, branch_value=False)
    return g, preds


class Real:
    """A real SubjectProperties built from an abstract registry, plus the id maps."""

    def __init__(self, reg: dict):
        self.reg_in = reg
        self.sp = SubjectProperties()
        np_ = reg["np"]
        own = list(reg["own"])
        edges = {(e[0], e[1]) for e in reg["cdg"]}
        self.co: dict[int, int] = {}
        self.pred: dict[int, int] = {}
        self.line: dict[int, int] = {}
        pending: list[tuple[int, int, cf.BasicBlockNode]] = []
        for c in sorted(reg["cos"]):
            mine = [p for p in range(1, np_ + 1) if own[p - 1] == c]
            nested = any((q, p) in edges for q in mine for p in mine)
            cfg, nodes = _build_cfg(len(mine), nested)
            cdg = cf.ControlDependenceGraph.compute(cfg)
            rid = self.sp.create_code_object_id()
            self.sp.register_code_object(
                rid, CodeObjectMetaData(code_object=_CODE, parent_code_object_id=None, cfg=cfg, cdg=cdg))
            self.co[c] = rid
            pending += [(p, rid, n) for p, n in zip(mine, nodes)]
        for p, rid, n in sorted(pending, key=lambda x: x[0]):
            self.pred[p] = self.sp.register_predicate(PredicateMetaData(line_no=p, code_object_id=rid, node=n))
        first = min(self.co.values(), default=0)
        for ln in range(1, reg["nl"] + 1):
            self.line[ln] = self.sp.register_line(LineMetaData(first, "verif.py", ln))
        self.co_inv = {v: k for k, v in self.co.items()}
        self.pred_inv = {v: k for k, v in self.pred.items()}
        self.line_inv = {v: k for k, v in self.line.items()}
        self.reg = self._observe()
        self.executor = StubExecutor(self.sp)

    def _observe(self) -> dict:
        """The registry as the real objects describe it (diameter, CDG path lengths)."""
        sp = self.sp
        np_ = len(sp.existing_predicates)
        own, diam, cdg = [], [], []
        for p in range(1, np_ + 1):
            meta = sp.existing_predicates[self.pred[p]]
            own.append(self.co_inv[meta.code_object_id])
            diam.append(int(sp.existing_code_objects[meta.code_object_id].cfg.diameter))
        for q in range(1, np_ + 1):
            for p in range(1, np_ + 1):
                mq, mp = sp.existing_predicates[self.pred[q]], sp.existing_predicates[self.pred[p]]
                if q == p or mq.code_object_id != mp.code_object_id:
                    continue
                graph = sp.existing_code_objects[mp.code_object_id].cdg.graph
                try:
                    cdg.append([q, p, int(nx.shortest_path_length(graph, mq.node, mp.node))])
                except (nx.NetworkXNoPath, nx.NodeNotFound):
                    pass
        return {"np": np_, "nl": len(sp.existing_lines),
                "cos": sorted(self.co_inv[c] for c in sp.existing_code_objects),
                "bl": sorted(self.co_inv[c] for c in sp.branch_less_code_objects),
                "own": own, "diam": diam, "cdg": cdg}


class StubTestCase:
    """Stands in for a test case: executing it yields a fixed execution result."""

    def __init__(self, result: ExecutionResult):
        self.result = result

    def clone(self):
        return StubTestCase(self.result)

    def size(self):
        return 1


class StubExecutor:
    """Executor returning the recorded result of the (stub) test case."""

    def __init__(self, sp: SubjectProperties):
        self.subject_properties = sp
        self.executions = 0

    def execute(self, test_case):
        self.executions += 1
        return test_case.result

    def execute_multiple(self, test_cases):
        return [self.execute(t) for t in test_cases]


# ----------------------------------------------------------------------------- traces
def dist_value(d: str, pal) -> float:
    return {"Z": 0.0, "P": pal[0], "Q": pal[1], "INF": INF}[d]


def materialise(t: dict, real: Real, pal) -> ExecutionTrace:
    """Build the real trace through the calls the tracer makes."""
    tr = ExecutionTrace()
    for c in t["cos"]:
        tr.executed_code_objects.add(real.co[c])
    for i, cnt in enumerate(t["cnt"]):
        p = real.pred[i + 1]
        d_t, d_f = t["dT"][i], t["dF"][i]
        if cnt == 0:
            continue
        if d_t == "Z" and d_f == "Z":
            calls = [(0.0, pal[0]), (pal[0], 0.0)] + [(0.0, pal[1])] * (cnt - 2)
        elif d_t == "Z":
            calls = [(0.0, dist_value(d_f, pal))] * cnt
        else:
            calls = [(dist_value(d_t, pal), 0.0)] * cnt
        for a, b in calls:
            tr.update_predicate_distances(a, b, p)
    for ln in t["lines"]:
        tr.covered_line_ids.add(real.line[ln])
    for ln in t["chk"]:
        tr.checked_lines.add(real.line[ln])
    return tr


def clone_trace(t: ExecutionTrace) -> ExecutionTrace:
    c = ExecutionTrace()
    c.executed_code_objects = OrderedSet(t.executed_code_objects)
    c.executed_predicates = dict(t.executed_predicates)
    c.true_distances = dict(t.true_distances)
    c.false_distances = dict(t.false_distances)
    c.covered_line_ids = OrderedSet(t.covered_line_ids)
    c.checked_lines = OrderedSet(t.checked_lines)
    return c


def _tag(v, pal) -> str:
    if v == 0.0:
        return "Z"
    if v == pal[0]:
        return "P"
    if v == pal[1]:
        return "Q"
    if v == INF:
        return "INF"
    return "X"


def project(tr: ExecutionTrace, real: Real, pal) -> dict:
    """Real trace -> abstract trace (FitnessOps); `ok` is false if it is not representable."""
    ok = True
    np_ = real.reg["np"]
    cnt, d_t, d_f = [], [], []
    for p in range(1, np_ + 1):
        rp = real.pred[p]
        n = tr.executed_predicates.get(rp, 0)
        cnt.append(n)
        for dist, out in ((tr.true_distances, d_t), (tr.false_distances, d_f)):
            if rp in dist:
                tag = _tag(dist[rp], pal)
                ok &= n > 0 and tag != "X"
            else:
                tag = "INF"
                ok &= n == 0
            out.append(tag)
    ok &= set(tr.executed_predicates) <= set(real.pred_inv)
    ok &= set(tr.true_distances) <= set(real.pred_inv) and set(tr.false_distances) <= set(real.pred_inv)
    cos = sorted(real.co_inv.get(c, 1000 + c) for c in tr.executed_code_objects)
    lines = sorted(real.line_inv.get(c, 1000 + c) for c in tr.covered_line_ids)
    chk = sorted(real.line_inv.get(c, 1000 + c) for c in tr.checked_lines)
    return {"cos": cos, "cnt": cnt, "dT": d_t, "dF": d_f, "lines": lines, "chk": chk, "ok": bool(ok)}


def raw_projection(tr: ExecutionTrace, real: Real) -> dict:
    """Coverage relevant content of a real trace with the real float distances (ranked later)."""
    preds = [real.pred[p] for p in range(1, real.reg["np"] + 1)]
    extra = (set(tr.executed_predicates) | set(tr.true_distances) | set(tr.false_distances)) - set(preds)
    return {"cos": sorted(tr.executed_code_objects),
            "cnt": [tr.executed_predicates.get(p, -1) for p in preds],
            "dT": [F(tr.true_distances[p]) if p in tr.true_distances else -3 for p in preds],
            "dF": [F(tr.false_distances[p]) if p in tr.false_distances else -3 for p in preds],
            "ln": sorted(tr.covered_line_ids), "ck": sorted(tr.checked_lines), "extra": len(extra)}


# ----------------------------------------------------------------------------- values
class F:
    """A float observed from the real code, to be replaced by its rank."""

    __slots__ = ("v",)

    def __init__(self, v):
        self.v = v


class Exc:
    __slots__ = ("name",)

    def __init__(self, ex: BaseException):
        self.name = type(ex).__name__


def call(fn, *a, **kw):
    try:
        return fn(*a, **kw)
    except Exception as ex:  # noqa: BLE001 - whatever the real code raises is an observation
        return Exc(ex)


def _val(r):
    """(value placeholder, error name)."""
    if isinstance(r, Exc):
        return -2, r.name
    if isinstance(r, bool) or not isinstance(r, (int, float)):
        return -2, f"not-a-number:{type(r).__name__}"
    return F(float(r)), ""


def _cov(r):
    if isinstance(r, Exc):
        return "exc"
    if r is True:
        return "T"
    if r is False:
        return "F"
    return "exc"


def _m4(r) -> int:
    if isinstance(r, (int, float)) and not isinstance(r, bool) and math.isfinite(r) and float(r * 4).is_integer():
        return int(r * 4)
    return -1


def _ratio(r) -> list[int]:
    if isinstance(r, (int, float)) and not isinstance(r, bool) and math.isfinite(r):
        q = Fraction(r).limit_denominator(64)
        if q.numerator / q.denominator == r:
            return [q.numerator, q.denominator]
    return [-1, 1]


def embed(event: dict) -> dict:
    """Replace every F(float) in the event by its rank among all floats of the event.
    The table always holds -inf, 0.0, 1.0, +inf; NaN -> -1."""
    vals = {-INF, 0.0, 1.0, INF}

    def walk(x):
        if isinstance(x, F):
            if not math.isnan(x.v):
                vals.add(x.v)
        elif isinstance(x, dict):
            for y in x.values():
                walk(y)
        elif isinstance(x, list):
            for y in x:
                walk(y)

    walk(event)
    order = sorted(vals)
    rank = {v: i for i, v in enumerate(order)}

    def sub(x):
        if isinstance(x, F):
            return -1 if math.isnan(x.v) else rank[x.v]
        if isinstance(x, dict):
            return {k: sub(y) for k, y in x.items()}
        if isinstance(x, list):
            return [sub(y) for y in x]
        if isinstance(x, int) and not isinstance(x, bool) and abs(x) > 2 ** 20:
            return 2 ** 20 if x > 0 else -(2 ** 20)  # TLC integers are 32 bit (a corrupted count can explode; sums must fit too)
        return x

    out = sub(event)
    out["z"] = rank[0.0]
    out["o"] = rank[1.0]
    out["top"] = rank[INF]
    return out


# ----------------------------------------------------------------------------- evaluation
def _real_ex(ex: dict, real: Real):
    return ({real.co[c] for c in ex["code"]}, {real.pred[p] for p in ex["tr"]}, {real.pred[p] for p in ex["fa"]})


def _is_noex(ex: dict) -> bool:
    return not ex["code"] and not ex["tr"] and not ex["fa"]


def _results(traces: list[ExecutionTrace]) -> list[ExecutionResult]:
    out = []
    for t in traces:
        r = ExecutionResult()
        r.execution_trace = t
        out.append(r)
    return out


def make_suite(results: list[ExecutionResult]) -> tsc.TestSuiteChromosome:
    suite = tsc.TestSuiteChromosome()
    for r in results:
        suite.add_test_case_chromosome(tcc.TestCaseChromosome(test_case=StubTestCase(r)))
    return suite


#: short names used in events -> the real callable
LEGEND = {
    "bdf": "fitness_metrics.compute_branch_distance_fitness / compute_branch_distance_fitness_is_covered",
    "bcov": "fitness_metrics.compute_branch_coverage",
    "lcov": "fitness_metrics.compute_line_coverage",
    "merge": "fitness_metrics.analyze_results",
    "BDSuite": "computations.BranchDistanceTestSuiteFitnessFunction (restrict, compute_fitness, compute_is_covered)",
    "LineSuite": "computations.LineTestSuiteFitnessFunction",
    "ChkSuite": "computations.StatementCheckedTestSuiteFitnessFunction",
    "BDCase": "computations.BranchDistanceTestCaseFitnessFunction",
    "GoalFit": "coveragegoals.BranchCoverageTestFitness (compute_fitness, compute_is_covered)",
    "GoalDist": "goal.get_distance(...).get_resulting_branch_fitness() / goal.is_covered "
                "(coveragegoals.BranchGoal, BranchlessCodeObjectGoal; controlflowdistance)",
    "LineGoal": "coveragegoals.LineCoverageTestFitness",
    "ChkGoal": "coveragegoals.StatementCheckedCoverageTestFitness",
}


def _fit(name, lvl, cls, x, fitness, covered, errs, goal=None):
    v, err = _val(fitness)
    if err:
        errs.append(f"{name}[{x}] fitness: {err}")
    if isinstance(covered, Exc):
        errs.append(f"{name}[{x}] is_covered: {covered.name}")
    out = {"n": name, "lvl": lvl, "cls": cls, "x": x, "v": v, "c": "na" if covered is None else _cov(covered),
           "m": _m4(fitness)}
    if goal is not None:
        out.update(goal)
    return out


def _covr(name, lvl, cls, coverage, errs):
    v, err = _val(coverage)
    if err:
        errs.append(f"{name} coverage: {err}")
    return {"n": name, "lvl": lvl, "cls": cls, "v": v, "q": _ratio(coverage)}


def evaluate(real: Real, traces: list[ExecutionTrace], exs: list[dict], pal, *, case_level: bool,
             suite: tsc.TestSuiteChromosome | None = None, chrom: tcc.TestCaseChromosome | None = None) -> dict:
    """Call every fitness / coverage function on the suite whose tests produced *traces*.

    case_level: additionally treat the single trace as the result of one test case (test case
    level functions and goals).  exs[0] must be the empty exclusion."""
    sp = real.sp
    ex_ = real.executor
    results = _results(traces)
    merged = call(fm.analyze_results, results)
    fits, covs, goals, errs = [], [], [], []
    if suite is None:
        suite = make_suite(results)
    # ---- pure functions on the merged trace (fitness_metrics.py)
    if not isinstance(merged, Exc):
        for x, ex in enumerate(exs):
            if _is_noex(ex):
                f = call(fm.compute_branch_distance_fitness, merged, sp)
                c = call(fm.compute_branch_distance_fitness_is_covered, merged, sp)
            else:
                code, tr, fa = _real_ex(ex, real)
                f = call(fm.compute_branch_distance_fitness, merged, sp, code, tr, fa)
                c = call(fm.compute_branch_distance_fitness_is_covered, merged, sp, code, tr, fa)
            fits.append(_fit("bdf", "pure", "branch", x, f, c, errs))
        covs.append(_covr("bcov", "pure", "branch", call(fm.compute_branch_coverage, merged, sp), errs))
        covs.append(_covr("lcov", "pure", "line", call(fm.compute_line_coverage, merged, sp), errs))
        proj = project(merged, real, pal)
    else:
        fits.append(_fit("merge", "pure", "other", 0, merged, None, errs))
        proj = project(ExecutionTrace(), real, pal)
        proj["ok"] = False
    # ---- suite level classes (computations.py) through the stub executor
    for x, ex in enumerate(exs):
        fn = ff.BranchDistanceTestSuiteFitnessFunction(ex_)
        if not _is_noex(ex):
            code, tr, fa = _real_ex(ex, real)
            # restrict() accumulates: hand the exclusions over in two calls
            fn.restrict(code, set(), set())
            fn.restrict(set(), tr, fa)
        fits.append(_fit("BDSuite", "suite", "branch", x,
                         call(fn.compute_fitness, suite), call(fn.compute_is_covered, suite), errs))
    fn = ff.LineTestSuiteFitnessFunction(ex_)
    fits.append(_fit("LineSuite", "suite", "line", 0,
                     call(fn.compute_fitness, suite), call(fn.compute_is_covered, suite), errs))
    fn = ff.StatementCheckedTestSuiteFitnessFunction(ex_)
    fits.append(_fit("ChkSuite", "suite", "checked", 0,
                     call(fn.compute_fitness, suite), call(fn.compute_is_covered, suite), errs))
    for cls_, kind in ((ff.TestSuiteBranchCoverageFunction, "branch"), (ff.TestSuiteLineCoverageFunction, "line"),
                       (ff.TestSuiteStatementCheckedCoverageFunction, "checked"),
                       (ff.TestSuiteAssertionCheckedCoverageFunction, "assertion")):
        covs.append(_covr(cls_.__name__, "suite", kind, call(cls_(ex_).compute_coverage, suite), errs))
    # ---- test case level classes and goals (coveragegoals.py, controlflowdistance.py)
    if case_level:
        assert len(traces) == 1
        if chrom is None:
            chrom = tcc.TestCaseChromosome(test_case=StubTestCase(results[0]))
        fn = ff.BranchDistanceTestCaseFitnessFunction(ex_, 0)
        fits.append(_fit("BDCase", "case", "branch", 0,
                         call(fn.compute_fitness, chrom), call(fn.compute_is_covered, chrom), errs))
        for cls_, kind in ((ff.TestCaseBranchCoverageFunction, "branch"), (ff.TestCaseLineCoverageFunction, "line"),
                           (ff.TestCaseStatementCheckedCoverageFunction, "checked"),
                           (ff.TestCaseAssertionCheckedCoverageFunction, "assertion")):
            covs.append(_covr(cls_.__name__, "case", kind, call(cls_(ex_).compute_coverage, chrom), errs))
        pool = call(bg.BranchGoalPool, sp)
        goal_fns = [] if isinstance(pool, Exc) else list(bg.create_branch_coverage_fitness_functions(ex_, pool))
        for gf in goal_fns:
            goal = gf.goal
            if goal.is_branch:
                g = {"k": "br", "gc": real.co_inv[goal.code_object_id], "gp": real.pred_inv[goal.predicate_id],
                     "gb": bool(goal.value), "gl": 0}
            else:
                g = {"k": "bl", "gc": real.co_inv[goal.code_object_id], "gp": 0, "gb": False, "gl": 0}
            goals.append(_fit("GoalFit", "goal", "goal", 0,
                              call(gf.compute_fitness, chrom), call(gf.compute_is_covered, chrom), errs, g))
            dist = call(goal.get_distance, results[0], sp)
            fitness = dist if isinstance(dist, Exc) else call(dist.get_resulting_branch_fitness)
            goals.append(_fit("GoalDist", "goal", "goal", 0, fitness, call(goal.is_covered, results[0]), errs, g))
        for maker, kind, nm in ((bg.create_line_coverage_fitness_functions, "line", "LineGoal"),
                                (bg.create_checked_coverage_fitness_functions, "chk", "ChkGoal")):
            made = call(maker, ex_)
            for gf in ([] if isinstance(made, Exc) else made):
                g = {"k": kind, "gc": 0, "gp": 0, "gb": False, "gl": real.line_inv[gf._goal.line_id]}  # noqa: SLF001
                goals.append(_fit(nm, "goal", "goal", 0,
                                  call(gf.compute_fitness, chrom), call(gf.compute_is_covered, chrom), errs, g))
    return {"tr": proj, "exact": bool(proj["ok"] and pal == PALETTES[0]), "fits": fits, "goals": goals,
            "covs": covs, "errs": errs}


EMPTY_EVAL = {"tr": {"cos": [], "cnt": [], "dT": [], "dF": [], "lines": [], "chk": [], "ok": False},
              "exact": False, "fits": [], "goals": [], "covs": [], "errs": []}


EMPTY_TRACE = {"cos": [], "cnt": [], "dT": [], "dF": [], "lines": [], "chk": [], "ok": False}


def _event(kind, real: Real, exs, pre, post, projs=(), how=(), added=None):
    return embed({"kind": kind, "reg": real.reg, "exs": exs, "pre": pre, "post": post,
                  "added": added or EMPTY_TRACE, "projs": list(projs), "how": list(how)})


def eval_event(real: Real, t_abs: dict, exs: list[dict], pal) -> dict:
    """C10 case: one abstract trace, as the result of a test case and as a one-test suite."""
    tr = materialise(t_abs, real, pal)
    ev = evaluate(real, [tr], exs, pal, case_level=True)
    return _event("eval", real, exs, EMPTY_EVAL, ev)


def add_event(real: Real, traces: list[ExecutionTrace], exs: list[dict], pal) -> dict:
    """C11 case: the suite traces[:-1] and the suite with the test traces[-1] added (a clone of
    the suite chromosome extended with add_test_case_chromosome)."""
    results = _results(traces)
    suite = make_suite(results[:-1])
    pre = evaluate(real, traces[:-1], exs, pal, case_level=False, suite=suite)
    bigger = suite.clone()
    bigger.add_test_case_chromosome(tcc.TestCaseChromosome(test_case=StubTestCase(results[-1])))
    post = evaluate(real, traces, exs, pal, case_level=False, suite=bigger)
    return _event("add", real, exs, pre, post, added=project(traces[-1], real, pal))


def _merge_grouped(traces: list[ExecutionTrace], how: str) -> ExecutionTrace:
    cs = [clone_trace(t) for t in traces]
    if how == "analyze":
        return fm.analyze_results(_results(cs))
    if how == "left" or len(cs) < 3:
        acc = cs[0]
        for c in cs[1:]:
            acc.merge(c)
        return acc
    if how == "right":
        acc = cs[-1]
        for c in reversed(cs[:-1]):
            c.merge(acc)
            acc = c
        return acc
    if how == "balanced":
        half = len(cs) // 2
        a = _merge_grouped(cs[:half], "left")
        b = _merge_grouped(cs[half:], "left")
        a.merge(b)
        return a
    raise ValueError(how)


def merge_event(real: Real, traces: list[ExecutionTrace]) -> dict:
    """C11 case: the family merged in every order and grouping by the real merge / analyze_results."""
    projs, how = [], []
    groupings = ["left", "analyze"] + (["right"] if len(traces) > 2 else []) + (["balanced"] if len(traces) > 3 else [])
    for perm in itertools.permutations(range(len(traces))):
        for g in groupings:
            m = call(_merge_grouped, [traces[i] for i in perm], g)
            if isinstance(m, Exc):
                projs.append({"cos": [], "cnt": [], "dT": [], "dF": [], "ln": [], "ck": [], "extra": -1 - len(projs)})
            else:
                projs.append(raw_projection(m, real))
            how.append(g + ":" + "".join(map(str, perm)))
    # the same cached results analysed repeatedly, as the chromosomes of a population are: every
    # analysis must give the same answer and must leave the individual traces alone
    shared = [clone_trace(t) for t in traces]
    before = [raw_projection(t, real) for t in shared]
    for perm in list(itertools.permutations(range(len(traces))))[:4]:
        m = call(fm.analyze_results, _results([shared[i] for i in perm]))
        if isinstance(m, Exc):
            projs.append({"cos": [], "cnt": [], "dT": [], "dF": [], "ln": [], "ck": [], "extra": -1 - len(projs)})
        else:
            projs.append(raw_projection(m, real))
        how.append("analyze-shared:" + "".join(map(str, perm)))
    ev = _event("merge", real, [], EMPTY_EVAL, EMPTY_EVAL, projs, how)

    def plain(x):
        if isinstance(x, F):
            return ("F", repr(x.v))
        if isinstance(x, dict):
            return {k: plain(v) for k, v in x.items()}
        if isinstance(x, list):
            return [plain(v) for v in x]
        return x

    ev["inputs_kept"] = plain(before) == plain([raw_projection(t, real) for t in shared])
    return ev


# ----------------------------------------------------------------------------- real search runs
NOEX = {"code": [], "tr": [], "fa": []}


class SearchReal:
    """View on the SubjectProperties / executor of a running search with the interface of Real.
    Abstract ids: predicate p = real id + 1, line l = real id + 1, code object c = real id + 1."""

    def __init__(self, sp: SubjectProperties, executor):
        self.sp = sp
        self.executor = executor
        self.pred = {p + 1: p for p in sp.existing_predicates}
        self.co = {c + 1: c for c in sp.existing_code_objects}
        self.line = {ln + 1: ln for ln in sp.existing_lines}
        self.co_inv = {v: k for k, v in self.co.items()}
        self.pred_inv = {v: k for k, v in self.pred.items()}
        self.line_inv = {v: k for k, v in self.line.items()}
        preds = sorted(sp.existing_predicates)
        contiguous = preds == list(range(len(preds)))
        self.reg = {"np": len(preds), "nl": len(sp.existing_lines), "cos": sorted(self.co),
                    "bl": sorted(c + 1 for c in sp.branch_less_code_objects),
                    "own": [sp.existing_predicates[p].code_object_id + 1 for p in preds],
                    "diam": [int(sp.existing_code_objects[sp.existing_predicates[p].code_object_id].cfg.diameter)
                             for p in preds],
                    "cdg": [], "contiguous": contiguous}


def _attached_ex(fn, real) -> dict:
    return {"code": sorted(real.co_inv[c] for c in fn._excluded_code_objects),  # noqa: SLF001
            "tr": sorted(real.pred_inv[p] for p in fn._excluded_true_predicates),  # noqa: SLF001
            "fa": sorted(real.pred_inv[p] for p in fn._excluded_false_predicates)}  # noqa: SLF001


def search_events(algorithm, best, max_cases: int = 8) -> list[dict]:
    """Events for the best suite of a real search iteration: the suite (its own fitness / coverage
    function objects and fresh ones) and its first test cases (test case level functions, goals)."""
    executor = algorithm.executor
    real = SearchReal(executor.subject_properties, executor)
    pal = (-1.0, -1.0)  # no float is a palette value: abstract projection is never exact
    suite = best.clone()
    results = [c.get_last_execution_result() for c in suite.test_case_chromosomes]
    if any(r is None for r in results):  # not executed yet: let the real executor run them now
        ff.TestSuiteBranchCoverageFunction(executor).compute_coverage(suite)
        results = [c.get_last_execution_result() for c in suite.test_case_chromosomes]
    traces = [r.execution_trace for r in results]
    exs = [NOEX]
    attached = []
    for fn in suite.get_fitness_functions():
        if isinstance(fn, ff.BranchDistanceTestSuiteFitnessFunction):
            ex = _attached_ex(fn, real)
            if ex not in exs:
                exs.append(ex)
            attached.append((fn, "branch", exs.index(ex)))
        elif isinstance(fn, ff.LineTestSuiteFitnessFunction):
            attached.append((fn, "line", 0))
        elif isinstance(fn, ff.StatementCheckedTestSuiteFitnessFunction):
            attached.append((fn, "checked", 0))
    ev = evaluate(real, traces, exs, pal, case_level=False, suite=suite)
    for fn, cls, x in attached:
        ev["fits"].append(_fit("attached:" + type(fn).__name__, "suite", cls, x,
                               call(fn.compute_fitness, suite), call(fn.compute_is_covered, suite), ev["errs"]))
    for cf_ in suite.get_coverage_functions():
        kind = {"TestSuiteBranchCoverageFunction": "branch", "TestSuiteLineCoverageFunction": "line",
                "TestSuiteStatementCheckedCoverageFunction": "checked"}.get(type(cf_).__name__, "assertion")
        ev["covs"].append(_covr("attached:" + type(cf_).__name__, "suite", kind,
                                call(cf_.compute_coverage, suite), ev["errs"]))
    out = [_event("eval", real, exs, EMPTY_EVAL, ev)]
    for chrom, res in list(zip(suite.test_case_chromosomes, results))[:max_cases]:
        single = tsc.TestSuiteChromosome()
        single.add_test_case_chromosome(chrom)
        cev = evaluate(real, [res.execution_trace], [NOEX], pal, case_level=True, suite=single, chrom=chrom)
        for fn in chrom.get_fitness_functions():
            goal = getattr(fn, "goal", None)
            if goal is None or not isinstance(fn, bg.BranchCoverageTestFitness):
                continue
            if goal.is_branch:
                g = {"k": "br", "gc": real.co_inv[goal.code_object_id], "gp": real.pred_inv[goal.predicate_id],
                     "gb": bool(goal.value), "gl": 0}
            else:
                g = {"k": "bl", "gc": real.co_inv[goal.code_object_id], "gp": 0, "gb": False, "gl": 0}
            cev["goals"].append(_fit("attached:GoalFit", "goal", "goal", 0, call(fn.compute_fitness, chrom),
                                     call(fn.compute_is_covered, chrom), cev["errs"], g))
        out.append(_event("eval", real, [NOEX], EMPTY_EVAL, cev))
    return out

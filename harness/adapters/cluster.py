"""Abstract module (ClusterOps member records) -> real Python package -> real
``generate_test_cluster`` -> observed ``accessible_objects_under_test`` projected back on the
member records.

A case is ``{"modign": str, "M": [record, ...]}`` as emitted by MC_Cluster.  The adapter renders a
package ``<pkg>/{__init__,sut_helper,sut}.py`` below a scratch root, imports it, and runs the real
analysis once per ElementVisibility value (fresh import every time).  Every accessible object under
test is matched *by object identity* with the rendered member it denotes; the module in which the
callable is really written is determined by inspection (``__code__.co_filename`` /
``inspect.getsourcefile``), not taken from the case.  Objects under test that denote no rendered
member are appended as records of kind "unexpected".

Inheritance: a record with ``basei`` is a SUT class deriving from a class of the SUT or of the helper
module (``from helper import B`` / ``import B as al`` / ``hmod.B``).  A member record of the subclass
with ``inh`` "other" / "sut" is a *view*: nothing is rendered in the subclass, the base-class member
(method, static method, class method, property, lambda attribute) is merely inherited; a member record
with ``inh`` "own" and ``src`` is rendered in the subclass under the name of the base-class member and
overrides it.  An accessible object is matched with a view by the pair (identity of the class it is
listed for, identity of the underlying function), so `Sub.create` of an inherited class method is
told apart from `Base.create`.
"""

from __future__ import annotations

import importlib
import inspect
import linecache
import logging
import shutil
import sys
from pathlib import Path

import pynguin.configuration as config
from pynguin.analyses.module import generate_test_cluster
from pynguin.configuration import ElementVisibility
from pynguin.utils.generic.genericaccessibleobject import (
    GenericConstructor,
    GenericEnum,
    GenericFunction,
    GenericMethod,
)

VISIBILITIES = ("PUBLIC", "PROTECTED", "ALL")
assert tuple(v.name for v in ElementVisibility) == VISIBILITIES, list(ElementVisibility)

STEM = {"function": "f", "lambda": "g", "cachedfunc": "h", "asyncfunc": "a", "closure": "e",
        "class": "C", "enumclass": "E", "abstractclass": "A", "method": "m", "staticmethod": "s",
        "classmethod": "c", "property": "p", "lambdaattr": "l", "abstractmethod": "am",
        "nestedclass": "N", "nestedmethod": "im", "borrowed": "b"}
CLASSLIKE = {"class", "enumclass", "abstractclass", "nestedclass"}
FUNCKINDS = {"function", "lambda", "cachedfunc", "asyncfunc", "closure"}


def apply_nc(stem: str, nc: str) -> str:
    if nc == "public":
        return stem
    if nc == "prot":
        return "_" + stem
    if nc == "priv":
        return "__" + stem
    if nc == "dunder":
        return "__" + stem + "__"
    if nc == "manglike":
        return "_k__" + stem
    if nc == "pubus":
        return stem[0] + "_" + stem[1:]
    if nc == "mainpfx":
        return "mainly_" + stem
    if nc == "mainconv":
        return "main"
    if nc == "testpfx":
        return "testify_" + stem
    if nc == "testconv":
        return "test_" + stem
    raise ValueError(nc)


def classify(name: str) -> str:
    """Name class of an arbitrary identifier (only used for records of kind "unexpected")."""
    if name.startswith("__") and name.endswith("__"):
        return "dunder"
    if name.startswith("__"):
        return "priv"
    if name.startswith("_"):
        return "prot"
    return "public"


class Rendered:
    """Source text of one case plus the bookkeeping needed to find every member again."""

    def __init__(self, case: dict, pkg: str):
        self.M = case["M"]
        self.modign = case["modign"]
        self.pkg = pkg
        self.sut = f"{pkg}.sut"
        self.helper = f"{pkg}.sut_helper"   # SUT name is a prefix of the helper name
        self.names: dict[int, str] = {}
        for i in range(1, len(self.M) + 1):
            self.names[i] = self._name(i)
        self.ignore_methods: list[str] = []
        self.helper_src = self._render_file("other")
        self.sut_src = self._render_file("sut")
        self.ignore_modules = {"none": [], "helper": [self.helper], "sut": [self.sut],
                               "unrelated": ["c27_unrelated", self.sut + "x"]}[self.modign]

    # ------------------------------------------------------------------ names
    def rec(self, i: int) -> dict:
        return self.M[i - 1]

    def _name(self, i: int) -> str:
        r = self.rec(i)
        if r["src"]:
            return self._name(r["src"])
        return apply_nc(STEM[r["kind"]] + str(i), r["nc"])

    def defining_class(self, i: int) -> int:
        """Index of the class in whose body member i is written (views: the base class)."""
        r = self.rec(i)
        if r["inh"] in ("other", "sut"):
            return self.defining_class(r["src"])
        return r["owner"]

    def runtime_name(self, i: int) -> str:
        """Attribute name at run time (private names in a class body are mangled)."""
        r = self.rec(i)
        n = self.names[i]
        if r["owner"] and r["nc"] == "priv":
            cls = self.names[self.defining_class(i)].lstrip("_")
            return f"_{cls}{n}"
        return n

    def base_expr(self, b: int) -> str:
        r = self.rec(b)
        if r["def"] == "sut":
            return self.names[b]
        return {"from": self.names[b], "as": f"al{b}", "mod": f"hmod.{self.names[b]}"}[r["imp"]]

    # ------------------------------------------------------------------ text
    def _members_of(self, c: int) -> list[int]:
        return [j for j in range(1, len(self.M) + 1)
                if self.rec(j)["owner"] == c and self.rec(j)["inh"] in ("own", "borrowed")]

    def _render_member(self, j: int, ind: str) -> list[str]:
        r = self.rec(j)
        n = self.names[j]
        k = r["kind"]
        if k == "method":
            return [f"{ind}def {n}(self):", f"{ind}    return {j}"]
        if k == "staticmethod":
            return [f"{ind}@staticmethod", f"{ind}def {n}():", f"{ind}    return {j}"]
        if k == "classmethod":
            return [f"{ind}@classmethod", f"{ind}def {n}(cls):", f"{ind}    return {j}"]
        if k == "property":
            return [f"{ind}@property", f"{ind}def {n}(self):", f"{ind}    return {j}"]
        if k == "lambdaattr":
            return [f"{ind}{n} = lambda self: {j}"]
        if k == "abstractmethod":
            return [f"{ind}@abstractmethod", f"{ind}def {n}(self):", f"{ind}    ..."]
        if k == "nestedclass":
            out = [f"{ind}class {n}:"]
            for m in self._members_of(j):
                out += self._render_member(m, ind + "    ")
            return out
        if k == "nestedmethod":
            return [f"{ind}def {n}(self):", f"{ind}    return {j}"]
        if k == "borrowed":
            return [f"{ind}{n} = __import__({self.helper!r}, fromlist=['x']).hb{j}"]
        raise ValueError(k)

    def _render_class(self, i: int) -> list[str]:
        r = self.rec(i)
        n = self.names[i]
        base = {"class": "", "enumclass": "(Enum)", "abstractclass": "(ABC)"}[r["kind"]]
        if r["basei"]:
            base = f"({self.base_expr(r['basei'])})"
        out = [f"class {n}{base}:"]
        if r["kind"] == "enumclass":
            out.append("    V = 1")
        elif i % 2 and not r["basei"] and r["kind"] == "class":
            out += ["    def __init__(self):", f"        self.v = {i}"]
        for j in self._members_of(i):
            out += self._render_member(j, "    ")
        if len(out) == 1:
            out.append("    pass")
        for j in self._members_of(i):
            if self.rec(j)["kind"] == "nestedclass" and self.rec(j)["bound"]:
                out.append(f"xN{j} = {n}.{self.names[j]}")
        return out

    def _render_top(self, i: int) -> list[str]:
        r = self.rec(i)
        n = self.names[i]
        k = r["kind"]
        if k == "function":
            return [f"def {n}(x=0):", "    return x"]
        if k == "lambda":
            return [f"{n} = lambda x=0: x"]
        if k == "cachedfunc":
            return ["@lru_cache", f"def {n}(x=0):", "    return x"]
        if k == "asyncfunc":
            return [f"async def {n}():", "    return 0"]
        if k == "closure":
            inner = apply_nc(f"n{i}", r["nc"])
            return [f"def _mk{i}():", f"    def {inner}():", f"        return {i}", f"    return {inner}",
                    f"{n} = _mk{i}()", f"del _mk{i}"]
        if k in ("class", "enumclass", "abstractclass"):
            return self._render_class(i)
        raise ValueError(k)

    def _render_file(self, which: str) -> str:
        idx = [i for i in range(1, len(self.M) + 1)
               if self.rec(i)["owner"] == 0 and self.rec(i)["def"] == which]
        kinds = {self.rec(i)["kind"] for i in idx}
        head = [f'"""C27 case {self.pkg}: {"module under test" if which == "sut" else "helper"}."""']
        if "enumclass" in kinds:
            head.append("from enum import Enum")
        if "abstractclass" in kinds:
            head.append("from abc import ABC, abstractmethod")
        if "cachedfunc" in kinds:
            head.append("from functools import lru_cache")
        body: list[str] = []
        if which == "sut":
            foreign = [i for i in range(1, len(self.M) + 1)
                       if self.rec(i)["owner"] == 0 and self.rec(i)["def"] == "other"]
            if any(self.rec(i)["imp"] == "mod" for i in foreign):
                head.append(f"import {self.helper} as hmod")
            for i in foreign:
                imp = self.rec(i)["imp"]
                if imp == "from":
                    head.append(f"from {self.helper} import {self.names[i]}")
                elif imp == "as":
                    head.append(f"from {self.helper} import {self.names[i]} as al{i}")
        else:
            for j in range(1, len(self.M) + 1):
                if self.rec(j)["kind"] == "borrowed":
                    body += [f"def hb{j}(self=None):", f"    return {j}"]
        for i in idx:
            body += self._render_top(i)
            r = self.rec(i)
            if which == "sut":
                self._ignore_entries(i)
                for j in self._members_of(i):
                    self._ignore_entries(j)
        return "\n".join(head + [""] + body) + "\n"

    def _ignore_entries(self, i: int) -> None:
        r = self.rec(i)
        if r["ig"] == "no" or r["src"] or r["inh"] != "own":
            return
        quals = [self.names[i]]
        if r["owner"]:
            owner = self.names[r["owner"]]
            quals = [f"{owner}.{self.names[i]}"]
            if self.runtime_name(i) != self.names[i]:
                quals.append(f"{owner}.{self.runtime_name(i)}")
        for q in quals:
            if r["ig"] == "exact":
                self.ignore_methods.append(f"{self.sut}.{q}")
            else:
                self.ignore_methods += [f"{self.sut}.{q}x", f"{self.helper}.{q}", f"{self.sut}x.{q}"]

    def write(self, root: Path) -> Path:
        d = root / self.pkg
        d.mkdir(parents=True)
        (d / "__init__.py").write_text("")
        (d / "sut_helper.py").write_text(self.helper_src)
        (d / "sut.py").write_text(self.sut_src)
        return d


# ---------------------------------------------------------------------------------------------
def _purge(pkg: str) -> None:
    for k in [k for k in sys.modules if k == pkg or k.startswith(pkg + ".")]:
        del sys.modules[k]


def _where(obj, sut_file: str, helper_file: str) -> str:
    """Module whose source really contains the callable / class: "sut", "other"."""
    try:
        if inspect.isclass(obj):
            f = inspect.getsourcefile(obj)
        else:
            f = inspect.unwrap(obj).__code__.co_filename
    except (TypeError, AttributeError, OSError):
        return "other"
    return "sut" if f == sut_file else "other"


def _locate(rd: Rendered, sutmod, helpermod):
    """member index -> (key, object); keys identify accessible objects by identity."""
    objs: dict[int, object] = {}
    keys: dict[tuple, int] = {}
    M = rd.M
    for i in range(1, len(M) + 1):
        r = rd.rec(i)
        k = r["kind"]
        if r["owner"] == 0:
            ns = vars(sutmod) if r["def"] == "sut" else vars(helpermod)
            obj = ns[rd.names[i]]
            objs[i] = obj
            keys[("C", id(obj)) if k in CLASSLIKE else ("F", id(obj))] = i
            # bound in the SUT namespace exactly when the record says so
            in_sut = any(v is obj for v in vars(sutmod).values())
            if in_sut != r["bound"]:
                raise RuntimeError(f"render bug: member {i} bound={in_sut} record says {r['bound']}")
            continue
        owner = objs[r["owner"]]
        if r["inh"] in ("own", "borrowed"):
            raw = vars(owner)[rd.runtime_name(i)]
            if k in ("staticmethod", "classmethod"):
                obj = raw.__func__
            elif k == "property":
                obj = raw.fget
            else:
                obj = raw
        else:
            obj = objs[r["src"]]
            # a view: nothing is written in the subclass, the attribute resolves (statically) to
            # the very object of the base class -- function, static/class method or property
            if rd.runtime_name(i) in vars(owner):
                raise RuntimeError(f"render bug: view {i} is written in the body of its owner")
            got = inspect.getattr_static(owner, rd.runtime_name(i))
            if isinstance(got, property):
                got = got.fget
            got = getattr(got, "__func__", got)
            if got is not obj:
                raise RuntimeError(f"render bug: view {i} does not resolve to the base member")
        objs[i] = obj
        if k == "nestedclass":
            keys[("C", id(obj))] = i
            in_sut = any(v is obj for v in vars(sutmod).values())
            if in_sut != r["bound"]:
                raise RuntimeError(f"render bug: nested class {i} bound={in_sut}")
        else:
            keys[("M", id(owner), id(obj))] = i
    return objs, keys


def _describe(acc) -> tuple[tuple | None, str, str, object]:
    """(identity key, kind, qualified name, python object) of an accessible object."""
    if isinstance(acc, (GenericConstructor, GenericEnum)):
        cls = acc.owner.raw_type
        return ("C", id(cls)), ("enum" if isinstance(acc, GenericEnum) else "constructor"), \
            f"{cls.__module__}.{cls.__qualname__}", cls
    if isinstance(acc, GenericMethod):
        cls = acc.owner.raw_type
        f = acc.callable
        f = getattr(f, "__func__", f)
        return ("M", id(cls), id(f)), "method", \
            f"{cls.__module__}.{cls.__qualname__}.{acc.method_name}", f
    if isinstance(acc, GenericFunction):
        f = acc.callable
        return ("F", id(f)), "function", \
            f"{getattr(inspect.unwrap(f), '__module__', '?')}.{acc.function_name}", f
    return None, type(acc).__name__, str(acc), None


def run_case(case: dict, root: Path, n: int) -> dict:
    """Render, import and analyse one case under the three visibilities; return its trace."""
    logging.disable(logging.CRITICAL)
    sys.dont_write_bytecode = True
    pkg = f"c27_{n}"
    rd = Rendered(case, pkg)
    d = rd.write(root)
    if str(root) not in sys.path:
        sys.path.insert(0, str(root))
    importlib.invalidate_caches()
    sut_file = str(d / "sut.py")
    helper_file = str(d / "sut_helper.py")
    members = [dict(r, name=rd.names[i + 1]) for i, r in enumerate(rd.M)]
    unexpected: dict[str, int] = {}
    events = []
    cfg = config.configuration
    saved = (cfg.element_visibility, cfg.ignore_methods, cfg.ignore_modules, cfg.subprocess)
    try:
        for vis in VISIBILITIES:
            _purge(pkg)
            cfg.element_visibility = ElementVisibility[vis]
            cfg.ignore_methods = list(rd.ignore_methods)
            cfg.ignore_modules = list(rd.ignore_modules)
            cluster = generate_test_cluster(rd.sut)
            sutmod = sys.modules[rd.sut]
            helpermod = importlib.import_module(rd.helper)
            objs, keys = _locate(rd, sutmod, helpermod)
            if vis == "PUBLIC":
                for i, obj in objs.items():
                    truth = _where(obj, sut_file, helper_file)
                    if truth != members[i - 1]["def"]:
                        raise RuntimeError(f"render bug: member {i} of {pkg} is really defined in "
                                           f"{truth}, record says {members[i - 1]['def']}")
            ut, shown = set(), []
            for acc in cluster.accessible_objects_under_test:
                key, kind, qual, obj = _describe(acc)
                where = _where(obj, sut_file, helper_file) if obj is not None else "other"
                shown.append(f"{kind} {qual.removeprefix(pkg + '.')} (written in {where})")
                i = keys.get(key) if key is not None else None
                if i is None:
                    desc = f"{kind} {qual.removeprefix(pkg + '.')}"
                    if desc not in unexpected:
                        members.append({"kind": "unexpected", "nc": classify(qual.rsplit(".", 1)[-1]),
                                        "def": where, "owner": 0, "inh": "own", "bound": False,
                                        "imp": "none", "ig": "no", "basei": 0, "src": 0,
                                        "name": desc})
                        unexpected[desc] = len(members)
                    i = unexpected[desc]
                ut.add(i)
            events.append({"vis": vis, "ut": sorted(ut), "objs": sorted(shown)})
    finally:
        (cfg.element_visibility, cfg.ignore_methods, cfg.ignore_modules, cfg.subprocess) = saved
        _purge(pkg)
        linecache.clearcache()
        shutil.rmtree(d, ignore_errors=True)
    return {"modign": rd.modign, "focus": 0, "M": members, "ev": events,
            "ignore_methods": rd.ignore_methods, "ignore_modules": rd.ignore_modules,
            "sut_src": rd.sut_src, "helper_src": rd.helper_src}


def focus_traces(trace: dict) -> list[dict]:
    """One single-event trace per (member, visibility): attribution of a violated clause."""
    out = []
    for i in range(1, len(trace["M"]) + 1):
        for ev in trace["ev"]:
            out.append({"modign": trace["modign"], "focus": i, "M": trace["M"],
                        "ev": [{"vis": ev["vis"], "ut": [i] if i in ev["ut"] else [], "objs": []}]})
    return out

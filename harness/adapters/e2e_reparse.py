"""Re-parse an exported test file through the seed parser and re-export it (C24).

usage: python -m harness.adapters.e2e_reparse <run dir> (reads cfg.json, events.ndjson; writes reparse.json)
"""

from __future__ import annotations

import json
import sys
from pathlib import Path


def main() -> int:
    run = Path(sys.argv[1])
    cfg = json.loads((run / "cfg.json").read_text())
    exp = None
    for ln in (run / "events.ndjson").read_text().splitlines():
        e = json.loads(ln)
        if e["ev"] == "Export":
            exp = e
    out = {"ok": False, "error": "", "functions": {}}
    if exp is None or not exp["text"]:
        out["error"] = "no export"
        (run / "reparse.json").write_text(json.dumps(out))
        return 0
    import pynguin.configuration as config
    from pynguin.analyses.module import generate_test_cluster
    from pynguin.analyses.seeding import parse_seed_module
    import pynguin.ga.testcasechromosome as tcc
    import pynguin.ga.testsuitechromosome as tsc
    from pynguin.testcase.export import TestSuiteWriter

    sys.path.insert(0, cfg["src_dir"])
    config.configuration.module_name = cfg["module"]
    config.configuration.project_path = cfg["src_dir"]
    config.configuration.test_case_output.assertion_generation = config.AssertionGenerator[cfg.get("assertions", "SIMPLE")]
    try:
        cluster = generate_test_cluster(cfg["module"])
        tests = parse_seed_module(exp["text"], cluster, create_assertions=cfg.get("assertions", "SIMPLE") != "NONE")
        suite = tsc.TestSuiteChromosome()
        for t in tests:
            suite.add_test_case_chromosome(tcc.TestCaseChromosome(t))
        path = TestSuiteWriter().write(suite, cfg["module"], run / "reparsed", project_path=cfg["src_dir"],
                                       format_with_black=True)
        out["text"] = Path(path).read_text()
        out["n_parsed"] = len(tests)
        out["ok"] = True
    except BaseException as ex:  # noqa: BLE001
        import traceback

        out["error"] = f"{type(ex).__name__}: {ex}\n" + traceback.format_exc()[-1500:]
    (run / "reparse.json").write_text(json.dumps(out))
    return 0


if __name__ == "__main__":
    sys.exit(main())

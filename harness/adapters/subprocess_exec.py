"""C31 adapter: the same test case on the real TestCaseExecutor and the real
SubprocessTestCaseExecutor, with the remote observers of assertion generation attached.

Set-up mirrors pynguin.generator: the import hook stays installed (first entry of sys.meta_path)
while test cases are executed, the SUT module is imported inside the tracer, the import trace is
stored.  Three configurations of the subprocess executor occur in Pynguin and are replayed here:

A  main executor (``--subprocess``): both executors on the subject properties of the import hook;
B  assertion filtering (default ``filter_assertions_in_subprocess``): the subprocess executor on
   ``subject_properties.sharing_registries()`` with the verification observer, compared with
   in-process filtering on the plain executor;
C  mutation analysis: both executors on ``sharing_registries()`` copies, an uninstrumented mutant
   of the SUT registered in the module provider, verification observer attached.

The adapter only drives and projects; every comparison is made by TLC (SubprocessExecTrace.tla).
"""

from __future__ import annotations

import importlib
import logging
import os
import sys
import types
from pathlib import Path

import libcst as cst

# ----------------------------------------------------------------------------------------------
# subjects under test
# ----------------------------------------------------------------------------------------------
SHAPE_MODULE = "vsx_shapes"
SHAPE_SUT = '''
import enum
import os
import sys
import threading
import time

_PARENT_PID = os.getpid()
LIMIT = 3


class Color(enum.Enum):
    RED = 1
    BLUE = 2


class PlainError(Exception):
    pass


class CodeError(Exception):
    """pickle.loads calls CodeError(*self.args): one argument is missing."""

    def __init__(self, code: int, msg: str) -> None:
        super().__init__(msg)
        self.code = code


class Box:
    kind = "box"

    def __init__(self, x: int) -> None:
        self.x = x
        self.items = [x]

    def push(self, y: int) -> int:
        if y > 1:
            self.x += y
        else:
            self.x -= 1
        self.items.append(y)
        return self.x


class Crate:
    """Pickling hooks implemented in (instrumented) code of the module under test."""

    tag = "crate"

    def __init__(self, x: int) -> None:
        self.x = x
        self.items = [x]

    def push(self, y: int) -> int:
        if y > 1:
            self.x += y
        self.items.append(y)
        return self.x

    def __getstate__(self) -> dict:
        if self.x > 1:
            return {"x": self.x, "items": list(self.items)}
        return {"x": 0, "items": []}

    def __setstate__(self, state: dict) -> None:
        if state["x"] >= 0:
            self.x = state["x"]
        self.items = state["items"]


class QuotaError(Exception):
    """Two-argument constructor, kept picklable by a __reduce__ of its own; carries a Crate."""

    def __init__(self, crate: Crate, limit: int) -> None:
        super().__init__(f"quota {limit} exceeded")
        self.crate = crate
        self.limit = limit

    def __reduce__(self):
        if self.limit > 1:
            return (QuotaError, (self.crate, self.limit))
        return (QuotaError, (self.crate, 0))


def rec(a: int) -> int:
    if a > 1:
        return a * 2
    return -a


def quarter(a: int) -> float:
    return a / 4


def pair(a: int) -> list:
    return [a, a + 1]


def pick(a: int) -> Color:
    if a == 1:
        return Color.RED
    return Color.BLUE


def shout(a: int) -> int:
    print("to stdout", a)
    sys.stderr.write("to stderr\\n")
    return a + 1


def fail_builtin(a: int) -> int:
    raise ValueError("boom")


def fail_own(a: int) -> int:
    raise PlainError("plain")


def fail_coded(a: int) -> int:
    raise CodeError(a, "coded")


def fail_quota(a: int) -> int:
    raise QuotaError(Crate(a), 3)


def leave(a: int) -> int:
    raise SystemExit(a)


def pause(a: int) -> int:
    """Terminates, but only after a / 10 seconds spent in uninstrumented code."""
    if a > 0:
        time.sleep(a / 10)
    return a


def spin(a: int) -> int:
    while True:
        a += 1
    return a


def nap(a: int) -> int:
    threading.Event().wait()
    return a


def die(a: int) -> int:
    if os.getpid() != _PARENT_PID:
        os._exit(7)
    return a
'''
SHAPE_MUTATIONS = [("return a * 2", "return a * 3"), ("self.x += y", "self.x -= y"),
                   ("return [a, a + 1]", "return [a, a + 2]"), ("return a / 4", "return a / 2")]

OP_CODE = {
    "recT": "rec(5)", "recF": "rec(0)", "obj": "Box(3)", "flt": "quarter(3)", "coll": "pair(2)",
    "enum": "pick(1)", "prt": "shout(1)", "exc": "fail_builtin(1)", "excS": "fail_own(1)",
    "excU": "fail_coded(1)", "exit": "leave(3)", "spin": "spin(0)", "nap": "nap(0)", "die": "die(1)",
    "objR": "Crate(3)", "excR": "fail_quota(2)",
}
OBJ_OPS = ("obj", "objR")
# one time unit of the model in seconds (slow family); a "slow" statement sleeps SLOW_DUR units
UNIT = 0.5

FACTORY_SUTS = {
    "vsx_bank": '''
import enum


class Level(enum.Enum):
    LOW = 0
    HIGH = 1


class Overdrawn(Exception):
    pass


class Rejected(Exception):
    def __init__(self, amount: int, reason: str) -> None:
        super().__init__(reason)
        self.amount = amount


class Account:
    currency = "EUR"

    def __init__(self, owner: str, balance: int = 0) -> None:
        self.owner = owner
        self.balance = balance
        self.history = []

    def deposit(self, amount: int) -> int:
        if amount <= 0:
            raise ValueError("amount must be positive")
        self.balance += amount
        self.history.append(amount)
        return self.balance

    def withdraw(self, amount: int) -> int:
        if amount > self.balance:
            raise Overdrawn(self.owner)
        if amount > 1000:
            raise Rejected(amount, "limit")
        self.balance -= amount
        self.history.append(-amount)
        return self.balance

    def level(self) -> Level:
        if self.balance > 100:
            return Level.HIGH
        return Level.LOW


def fee(amount: int, premium: bool) -> float:
    if premium:
        return 0.0
    if amount > 500:
        return amount * 0.01
    return 1.5


def transfer(src: Account, dst: Account, amount: int) -> bool:
    if src is dst:
        return False
    src.withdraw(amount)
    dst.deposit(amount)
    return True
''',
    "vsx_text": '''
def initials(words: list[str]) -> str:
    out = ""
    for w in words[:6]:
        if w:
            out += w[0].upper()
    return out


def clamp(value: int, low: int, high: int) -> int:
    if low > high:
        raise ValueError("empty range")
    if value < low:
        return low
    if value > high:
        return high
    return value


def ratio(a: int, b: int) -> float:
    return a / b


def count_vowels(text: str) -> dict:
    res = {}
    for ch in text[:40]:
        if ch in "aeiou":
            res[ch] = res.get(ch, 0) + 1
    return res


def head(items: list[int]) -> int:
    return items[0]


def describe(x: int) -> tuple:
    if x % 2 == 0:
        return ("even", x // 2)
    print("odd", x)
    return ("odd", None)


def as_bytes(text: str) -> bytes:
    return text[:10].encode("utf-8")
''',
    "vsx_geo": '''
import math


class Point:
    dims = 2

    def __init__(self, x: float, y: float) -> None:
        self.x = x
        self.y = y

    def norm(self) -> float:
        return math.sqrt(self.x * self.x + self.y * self.y)

    def scale(self, k: int) -> "Point":
        if k == 0:
            raise ZeroDivisionError("degenerate")
        return Point(self.x * k, self.y * k)

    def quadrant(self) -> int:
        if self.x >= 0 and self.y >= 0:
            return 1
        if self.x < 0 and self.y >= 0:
            return 2
        if self.x < 0:
            return 3
        return 4


def midpoint(a: Point, b: Point) -> Point:
    return Point((a.x + b.x) / 2, (a.y + b.y) / 2)


def inverse(x: float) -> float:
    if x == 0:
        return math.inf
    return 1 / x


def root(x: float) -> float:
    if x < 0:
        return math.nan
    return math.sqrt(x)


def label(p: Point) -> str:
    q = p.quadrant()
    if q == 1:
        return "NE"
    elif q == 2:
        return "NW"
    return "S"
''',
}
FACTORY_MUTATIONS = {
    "vsx_bank": [("self.balance += amount", "self.balance -= amount"), ("return 1.5", "return 2.5")],
    "vsx_text": [("return high", "return low"), ('return ("even", x // 2)', 'return ("even", x)')],
    "vsx_geo": [("return 1 / x", "return 2 / x"), ("return 1\n", "return 4\n")],
}


# ----------------------------------------------------------------------------------------------
# spies on the protocol steps of the real subprocess executor (observation only)
# ----------------------------------------------------------------------------------------------
PATH: list[list] = []
_STATUS: list[str] = []
_SPIED = False


def install_spies() -> None:
    global _SPIED
    if _SPIED:
        return
    from pynguin.testcase.subprocess_executor import SubprocessTestCaseExecutor as S  # noqa: PLC0415

    orig_setup = S._setup_subprocess_execution
    orig_process = S._process_subprocess_results
    orig_fallback = S._fallback_on_failure

    def setup(self, test_cases_tuple, references_bindings):
        PATH.append(["fork", len(test_cases_tuple)])
        return orig_setup(self, test_cases_tuple, references_bindings)

    def process(self, context):
        n = len(context.test_cases_tuple)
        has = context.connection_status == S.ConnectionStatus.HAS_RESULTS
        if not has:
            PATH.append(["polltimeout", n])
        _STATUS.append("has" if has else "no")
        mark = len(PATH)
        try:
            res = orig_process(self, context)
        finally:
            _STATUS.pop()
        if has and not any(e[0] == "fallback" and e[1] == n for e in PATH[mark:mark + 2]):
            PATH.append(["direct", n])
        return res

    def fallback(self, test_cases_tuple, process_, remote_observers):
        n = len(test_cases_tuple)
        if _STATUS and _STATUS[-1] == "has":
            PATH.append(["eof", n])
        PATH.append(["fallback", n])
        return orig_fallback(self, test_cases_tuple, process_, remote_observers)

    S._setup_subprocess_execution = setup
    S._process_subprocess_results = process
    S._fallback_on_failure = fallback
    _SPIED = True


# ----------------------------------------------------------------------------------------------
# environment: one instrumented SUT, hook installed, executors of the three configurations
# ----------------------------------------------------------------------------------------------
class Interner:
    """Strings -> small ints (TLC compares ints); the table goes into replay files."""

    def __init__(self) -> None:
        self.ids: dict[str, int] = {}

    def __call__(self, s: str) -> int:
        if s not in self.ids:
            self.ids[s] = len(self.ids) + 1
        return self.ids[s]

    def table(self) -> dict[int, str]:
        return {v: k for k, v in self.ids.items()}


INTERN = Interner()


class Env:
    def __init__(self, module_name: str, source: str, workdir: str | Path, per: float, maxt: float,
                 mutations: list[tuple[str, str]] | None = None) -> None:
        import pynguin.configuration as config  # noqa: PLC0415
        from pynguin.instrumentation.machinery import install_import_hook  # noqa: PLC0415
        from pynguin.instrumentation.tracer import SubjectProperties  # noqa: PLC0415
        from pynguin.testcase.execution import SubprocessTestCaseExecutor, TestCaseExecutor  # noqa: PLC0415

        install_spies()
        self.name = module_name
        self.source = source
        self.per, self.maxt = per, maxt
        wd = Path(workdir)
        wd.mkdir(parents=True, exist_ok=True)
        (wd / f"{module_name}.py").write_text(source)
        if str(wd) not in sys.path:
            sys.path.insert(0, str(wd))
        config.configuration.module_name = module_name
        config.configuration.project_path = str(wd)
        config.configuration.statistics_output.coverage_metrics = [
            config.CoverageMetric.BRANCH, config.CoverageMetric.LINE]
        config.configuration.test_case_output.output_path = str(wd / "out")
        config.configuration.test_case_output.crash_path = str(wd / "crash")
        sys.modules.pop(module_name, None)
        importlib.invalidate_caches()
        self.sp = SubjectProperties()
        self.hook = install_import_hook(module_name, self.sp, to_cover_config=config.ToCoverConfiguration())
        with self.sp.instrumentation_tracer:
            self.module = importlib.import_module(module_name)
        self.sp.instrumentation_tracer.store_import_trace()
        mk = lambda cls, sp: cls(sp, maximum_test_execution_timeout=maxt,  # noqa: E731
                                 test_execution_time_per_statement=per)
        self.TestCaseExecutor, self.SubprocessTestCaseExecutor = TestCaseExecutor, SubprocessTestCaseExecutor
        self.mk = mk
        # A
        self.inproc = mk(TestCaseExecutor, self.sp)
        self.sub = mk(SubprocessTestCaseExecutor, self.sp)
        # B
        self.sub_filter = mk(SubprocessTestCaseExecutor, self.sp.sharing_registries())
        # C (one pair per mutant, created lazily)
        self.mutations = mutations or []
        self._mutants: dict[int, tuple] = {}

    def mutant_pair(self, k: int, scale: float = 1.0):
        """(in-process, subprocess) executors on sharing_registries() copies with mutant k
        (compiled like mutation_analysis.transformer.create_module: plain, uninstrumented)."""
        if k not in self._mutants or scale != 1.0:
            old, new = self.mutations[k]
            assert old in self.source, (self.name, old)
            src = self.source.replace(old, new, 1)
            mod = types.ModuleType(self.name)
            exec(compile(src, self.name, "exec"), mod.__dict__)  # noqa: S102
            mk = lambda cls: cls(self.sp.sharing_registries(),  # noqa: E731
                                 maximum_test_execution_timeout=self.maxt * scale,
                                 test_execution_time_per_statement=self.per * scale)
            self._mutants[k] = (mk(self.TestCaseExecutor), mk(self.SubprocessTestCaseExecutor), mod)
            self.register_mutant(k)
        return self._mutants[k][:2]

    def register_mutant(self, k: int) -> None:
        """add_mutated_version on both executors (Pynguin does this before every mutant run)."""
        ine, sub, mod = self._mutants[k]
        ine.module_provider.add_mutated_version(self.name, mod)
        sub.module_provider.add_mutated_version(self.name, mod)

    def executors(self, per: float, maxt: float):
        """Pair A with other timeouts (same subject properties)."""
        return (self.TestCaseExecutor(self.sp, maximum_test_execution_timeout=maxt,
                                      test_execution_time_per_statement=per),
                self.SubprocessTestCaseExecutor(self.sp, maximum_test_execution_timeout=maxt,
                                                test_execution_time_per_statement=per))

    def close(self) -> None:
        self.hook.uninstall()
        sys.modules.pop(self.name, None)

    def __enter__(self):
        return self

    def __exit__(self, *a):
        self.close()


# ----------------------------------------------------------------------------------------------
# projections
# ----------------------------------------------------------------------------------------------
def render_assertion(a) -> str:
    from pynguin.assertion.assertion_to_ast import assertion_to_cst  # noqa: PLC0415

    node = assertion_to_cst(a)
    if node is None:
        return repr(a)
    return cst.Module(body=[node]).code.strip()


def project(result) -> dict:
    """Observable content of an ExecutionResult in the vocabulary of C31 (strings not interned:
    projections may come from worker processes)."""
    if isinstance(result, Failed):
        return {"to": False, "err": result.error, "ex": [], "ln": [], "co": [], "bt": [], "bf": [], "at": [],
                "vt": []}
    tr = result.execution_trace
    vt = result.assertion_verification_trace
    v = [[int(p), int(i), 0] for p, idxs in vt.failed.items() for i in idxs]
    v += [[int(p), int(i), 1] for p, idxs in vt.error.items() for i in idxs]
    return {
        "to": bool(result.timeout),
        "err": "",
        "ex": sorted([int(p), f"{type(e).__module__}.{type(e).__qualname__}"]
                     for p, e in result.exceptions.items()),
        "ln": sorted(int(x) for x in tr.covered_line_ids),
        "co": sorted(int(x) for x in tr.executed_code_objects),
        "bt": sorted(int(p) for p, d in tr.true_distances.items() if d == 0.0),
        "bf": sorted(int(p) for p, d in tr.false_distances.items() if d == 0.0),
        "at": [[int(p), [render_assertion(a) for a in asserts]]
               for p, asserts in sorted(result.assertion_trace.trace.items()) if len(asserts) > 0],
        "vt": sorted(v),
    }


def _untraced():
    """Pickling hooks of the SUT are instrumented code; outside a test execution the tracer of the
    import hook is stopped and would abort this thread: switch tracing off meanwhile."""
    import contextlib  # noqa: PLC0415

    from pynguin.instrumentation.machinery import InstrumentationFinder  # noqa: PLC0415

    stack = contextlib.ExitStack()
    for finder in sys.meta_path:
        if isinstance(finder, InstrumentationFinder):
            stack.enter_context(finder.subject_properties.instrumentation_tracer.temporarily_disable())
    return stack


def roundtrips(result) -> list[bool]:
    """Input classification for signatures: can pickle rebuild the exception objects?"""
    import pickle  # noqa: PLC0415

    out = []
    if isinstance(result, Failed):
        return out
    with _untraced():
        for _, e in sorted(result.exceptions.items()):
            try:
                out.append(type(pickle.loads(pickle.dumps(e))) is type(e))  # noqa: S301
            except Exception:  # noqa: BLE001
                out.append(False)
    return out


def seal(raw: dict) -> dict:
    """Intern the strings of a projection: TLC compares small ints."""
    out = dict(raw)
    out["err"] = INTERN(raw["err"]) if raw["err"] else 0
    out["ex"] = [[p, INTERN(name)] for p, name in raw["ex"]]
    out["at"] = [[p, [INTERN(a) for a in asserts]] for p, asserts in raw["at"]]
    return out


def describe(proj: dict) -> dict:
    """Human readable form of a projection (for violation details and replay files)."""
    t = INTERN.table()
    return {"timeout": proj["to"], "executor_raised": t.get(proj["err"], ""),
            "exceptions": {p: t[i] for p, i in proj["ex"]},
            "n_lines": len(proj["ln"]), "pred_true": proj["bt"], "pred_false": proj["bf"],
            "assertions": {p: [t[i] for i in ids] for p, ids in proj["at"]},
            "verification": [[p, i, "failed" if k == 0 else "error"] for p, i, k in proj["vt"]]}


# ----------------------------------------------------------------------------------------------
# building test cases
# ----------------------------------------------------------------------------------------------
def build_shape(prog: list[dict], slow_seconds: float = 0.0):
    """Abstract shape -> real libcst test case: statement k is the assignment ``var_k = <rhs>``
    (bnd) or the expression statement ``<rhs>`` that binds nothing.  A "slow" statement sleeps
    *slow_seconds* (the time scale is a parameter of the concretisation)."""
    import pynguin.testcase.testcase as tc  # noqa: PLC0415

    t = tc.TestCase()
    last_obj = None
    for k, st in enumerate(prog):
        op = st["op"]
        bound = bool(st.get("bnd", True))
        if op == "lit":
            rhs = str(7 + k)
        elif op == "mut":
            rhs = f"var_{last_obj}.push(2)"
        elif op == "slow":
            assert slow_seconds > 0, "slow statement without a time scale"
            rhs = f"pause({round(slow_seconds * 10)})"
        else:
            rhs = OP_CODE[op]
        if op in OBJ_OPS and bound:
            last_obj = k
        if bound:
            t.add_statement(tc.Statement(node=cst.parse_statement(f"var_{k} = {rhs}"),
                                         bound_variable=f"var_{k}", bound_type=int))
        else:
            t.add_statement(tc.Statement(node=cst.parse_statement(rhs), bound_variable=None, bound_type=None))
    return t


def attach(test, prog: list[dict], generated) -> None:
    """Attach the assertions the abstract attachment stands for.  *generated* is the assertion
    trace of the in-process trace-observer pass (used by 'gen')."""
    import pynguin.assertion.assertion as ass  # noqa: PLC0415

    for k, (st, stmt) in enumerate(zip(prog, test.statements())):
        att = st["att"]
        stmt.assertions.clear()
        if att == "gen":
            for a in generated.get_assertions(k):
                stmt.assertions.append(a)
        elif att == "fail":
            stmt.assertions.append(ass.ObjectAssertion(f"var_{k}", 424242))
        elif att == "err":
            stmt.assertions.append(ass.ObjectAssertion("vsx_missing_name", 1))
        elif att == "xwrong":
            stmt.assertions.append(ass.ExceptionAssertion("builtins", "KeyError"))


def factory_tests(env: Env, n: int, seed: int, max_len: int = 5) -> list:
    """Test cases from the real TestFactory over the real test cluster of the module."""
    import pynguin.configuration as config  # noqa: PLC0415
    import pynguin.testcase.testcase as tc  # noqa: PLC0415
    import pynguin.testcase.testfactory as tf  # noqa: PLC0415
    from pynguin.analyses.module import generate_test_cluster  # noqa: PLC0415
    from pynguin.utils import randomness  # noqa: PLC0415

    config.configuration.test_creation.max_size = 3
    config.configuration.test_creation.max_int = 2048
    config.configuration.test_creation.string_length = 8
    config.configuration.test_creation.collection_size = 3
    with env.sp.instrumentation_tracer.temporarily_disable():
        cluster = generate_test_cluster(env.name)
    factory = tf.TestFactory(cluster)
    randomness.RNG.seed(seed)
    out, seen = [], set()
    attempts = 0
    while len(out) < n and attempts < 20 * n:
        attempts += 1
        t = tc.TestCase()
        for _ in range(randomness.next_int(1, max_len + 1)):
            if t.size() >= 8:
                break
            factory.insert_random_statement(t, t.size())
        if t.size() == 0 or not factory.has_call_on_sut(t):
            continue
        code = t.to_code()
        if code in seen:
            continue
        seen.add(code)
        out.append(t)
    return out


# ----------------------------------------------------------------------------------------------
# running
# ----------------------------------------------------------------------------------------------
def observer(obs: str):
    import pynguin.assertion.assertiontraceobserver as ato  # noqa: PLC0415

    return ato.RemoteAssertionTraceObserver() if obs == "trace" else ato.RemoteAssertionVerificationObserver()


class Failed:
    """Placeholder for a result an executor did not deliver because it raised."""

    def __init__(self, exc: BaseException) -> None:
        self.error = f"{type(exc).__name__}: {exc}"[:200]
        self.timeout = False


def _execute(executor, tests: list, single: bool) -> list:
    """execute_multiple (or execute per test); an exception of the executor itself is recorded, the
    test cases of the batch are then executed one by one to attribute it."""
    if not single:
        try:
            return list(executor.execute_multiple(tests))
        except Exception:  # noqa: BLE001
            pass
    out = []
    for t in tests:
        try:
            out.append(executor.execute(t))
        except Exception as ex:  # noqa: BLE001
            out.append(Failed(ex))
    return out


def _tracer_of(executor):
    return executor.subject_properties.instrumentation_tracer.tracer


def run_both(inproc, sub, tests: list, obs: str, *, single: bool = False) -> tuple[list, list, list]:
    """Subprocess first (it leaves the SUT state of this process untouched), then in-process.
    The subprocess executor replaces the state of its tracer (import trace, thread state) by the
    one the child sent; the state from before is put back, so that both executions start from the
    same tracer state.  Returns (in-process results, subprocess results, observed protocol path)."""
    del PATH[:]
    saved = _tracer_of(sub).state
    with sub.temporarily_add_remote_observer(observer(obs)):
        rs = _execute(sub, tests, single)
    _tracer_of(sub).state = saved
    path = [list(e) for e in PATH]
    with inproc.temporarily_add_remote_observer(observer(obs)):
        ri = _execute(inproc, tests, single)
    return ri, rs, path


def run_sub_only(sub, tests: list, obs: str) -> list:
    del PATH[:]
    saved = _tracer_of(sub).state
    with sub.temporarily_add_remote_observer(observer(obs)):
        rs = _execute(sub, tests, False)
    _tracer_of(sub).state = saved
    return rs


def _norm(prog: list[dict]) -> list[dict]:
    return [{"op": s["op"], "att": s["att"], "bnd": bool(s.get("bnd", True))} for s in prog]


def event(kind: str, cfg: str, obs: str, mode: str, prog: list[dict], det: bool, cmp: list[str],
          pi: dict, ps: dict, label: str, tm: tuple[int, int] = (3, 1)) -> dict:
    """tm: (maximum timeout, time per statement) of both executors in the time units of the model."""
    return {"kind": kind, "cfg": cfg, "obs": obs, "mode": mode, "prog": _norm(prog), "model": bool(prog),
            "det": bool(det), "cmp": cmp, "i": pi, "s": ps, "label": label,
            "path": [], "mpath": [], "tm": [int(tm[0]), int(tm[1])]}


def batch_event(label: str, path: list, mpath: list) -> dict:
    empty = {"to": False, "err": "", "ex": [], "ln": [], "co": [], "bt": [], "bf": [], "at": [], "vt": []}
    return {"kind": "batch", "cfg": "A", "obs": "trace", "mode": "batch", "prog": [], "model": False,
            "det": False, "cmp": [], "i": empty, "s": empty, "label": label,
            "path": path, "mpath": mpath, "tm": [3, 1]}


def quiet() -> None:
    """No log output of Pynguin, no dill warnings (a class of a mutant module is pickled by value)."""
    import warnings  # noqa: PLC0415

    import dill  # noqa: PLC0415

    logging.disable(logging.CRITICAL)
    warnings.filterwarnings("ignore", category=dill.PicklingWarning)


def run_scenario(args) -> dict:
    """One scenario of MC_SubprocessExec (proto / slow family) on the real executors.  If a
    deterministic member for which the model expects no timeout times out in either executor
    (machine load) the scenario is repeated with the whole time scale doubled - both timeout
    settings AND the sleeps of "slow" statements, so that every attempt is the same abstract
    scenario (sleep between time per statement and budget); the last attempt is recorded.
    *slow* is the number of seconds a "slow" statement sleeps at scale 1 (0: none in the family)."""
    beh, workdir, per, maxt, idx, slow = args
    quiet()
    wd = Path(workdir) / f"sc{idx}-{os.getpid()}"
    out: dict = {}
    for attempt in range(3):
        scale = 2 ** attempt
        with Env(SHAPE_MODULE, SHAPE_SUT, wd, per * scale, maxt * scale) as env:
            tests = [build_shape(p, slow * scale) for p in beh["tests"]]
            ri, rs, path = run_both(env.inproc, env.sub, tests, "trace", single=False)
            out = {"pi": [project(r) for r in ri], "ps": [project(r) for r in rs], "path": path,
                   "attempts": attempt + 1, "scale": scale}
        spurious = False
        for k, prog in enumerate(beh["tests"]):
            ops = [s["op"] for s in prog]
            if "die" in ops or beh["exp"][k]["timeout"]:
                continue
            if out["pi"][k]["to"] or out["ps"][k]["to"]:
                spurious = True
        if not spurious and (out["path"] == beh.get("path", out["path"]) or attempt >= 1):
            break        # a path other than the model's is tried once more (poll deadlines under load)
    return out

"""C08 adapter: render a PyMini program with exclusion markers and extra scopes; collect the goals
Pynguin registers (line goals, predicates, code objects) per region of the module."""

from __future__ import annotations

import sys
from pathlib import Path

from harness.adapters import pymini

MARKERS = ["# pragma: no cover", "# pynguin: no cover"]

EXTRA = '''

def g(d, m):
    if pm_rt.nx(d):
        m.append(90)
    return 0


class K:
    def meth(self, d):
        if pm_rt.nx(d):
            return 1
        return 2


class Outer:
    class Inner:
        def deep(self, d):
            if pm_rt.nx(d):
                return 3
            return 4


if __name__ == "__main__":
    if len(sys.argv) > 1:
        print(f({"v": [], "k": 0}, []))

if TYPE_CHECKING:
    from collections.abc import Sequence
    if sys.version_info > (3,):
        X = Sequence
'''


def to_cover(scope: str, mod: str):
    import pynguin.configuration as config  # noqa: PLC0415

    no_cover, only_cover = [], []
    if scope == "no_g":
        no_cover = ["g"]
    elif scope == "only_f":
        only_cover = ["f"]
    elif scope == "no_meth":
        no_cover = ["K.meth"]
    elif scope == "no_K":
        no_cover = ["K"]
    elif scope == "only_K":
        only_cover = ["K"]
    elif scope == "no_deep":
        no_cover = ["Outer.Inner.deep"]
    elif scope == "only_deep":
        only_cover = ["Outer.Inner.deep"]
    elif scope == "no_Inner":
        no_cover = ["Outer.Inner"]
    return config.ToCoverConfiguration(no_cover=no_cover, only_cover=only_cover)


def run_case(args) -> dict:
    case, workdir, uid = args
    import dis  # noqa: PLC0415
    import importlib  # noqa: PLC0415

    from harness.adapters import pyn  # noqa: PLC0415

    prog = case["prog"]
    markers = [tuple(m) for m in case["markers"]]
    excl = {}
    for i, m in enumerate(sorted(markers)):
        excl[m] = MARKERS[(i + len(prog)) % 2]
    # clause lines (else / finally) carry their marker on the clause line itself
    src0, line_of, meta = pymini.render(prog, {k: v for k, v in excl.items() if not (len(k) >= 2 and k[-1] == 0 and k[-2] in (2, 4, 5))})
    lines = src0.rstrip("\n").split("\n")
    # place markers on else:/finally: lines: locate by structure (re-render with hooks)
    clause_marks = {k: v for k, v in excl.items() if len(k) >= 2 and k[-1] == 0 and k[-2] in (2, 4, 5)}
    if clause_marks:
        src0, line_of, meta, clause_line = render_with_clauses(prog, excl)
        lines = src0.rstrip("\n").split("\n")
    header = ["import sys", "from typing import TYPE_CHECKING"]
    # keep f's line numbers: the two imports replace the blank lines 2 and 3
    lines[1], lines[2] = header[0], header[1]
    src = "\n".join(lines) + "\n" + EXTRA
    wd = Path(workdir)
    wd.mkdir(parents=True, exist_ok=True)
    sut_dir = str(Path(__file__).resolve().parent.parent / "sut")
    if sut_dir not in sys.path:
        sys.path.insert(0, sut_dir)
    mod = f"vpx_{uid}"
    (wd / f"{mod}.py").write_text(src)
    all_lines = src.split("\n")

    def region(start_pat: str, end_pats: tuple[str, ...]) -> range:
        s = next(i for i, ln in enumerate(all_lines, start=1) if ln.startswith(start_pat))
        e = len(all_lines)
        for j in range(s, len(all_lines)):
            if any(all_lines[j].startswith(p) for p in end_pats):
                e = j
                break
        return range(s, e + 1)

    reg = {"f": region("def f(", ("def g(",)), "g": region("def g(", ("class K",)),
           "meth": region("    def meth(", ("class Outer",)),
           "deep": region("        def deep(", ("if __name__",)), "main": region("if __name__", ("if TYPE_CHECKING",)),
           "tc": region("if TYPE_CHECKING", ("\x00",))}
    # executable lines per region from the uninstrumented compile
    sys.modules.pop(mod, None)
    code = compile(src, str(wd / f"{mod}.py"), "exec")

    def code_lines(c) -> set[int]:
        out = {ln for _, _, ln in c.co_lines() if ln is not None}
        for k in c.co_consts:
            if hasattr(k, "co_lines"):
                out |= code_lines(k)
        return out

    def own_lines(c, name) -> set[int]:
        for k in c.co_consts:
            if hasattr(k, "co_lines"):
                if k.co_name == name:
                    first = k.co_firstlineno
                    return {ln for _, _, ln in k.co_lines() if ln is not None and ln != first} | (
                        set() if True else set())
                r = own_lines(k, name)
                if r:
                    return r
        return set()

    def reachable_lines(c, name) -> set[int]:
        for k in c.co_consts:
            if hasattr(k, "co_lines"):
                if k.co_name == name:
                    instrs = {i.offset: i for i in dis.get_instructions(k)}
                    live = pymini._reachable(k, instrs)  # noqa: SLF001
                    return {instrs[o].positions.lineno for o in live
                            if instrs[o].positions and instrs[o].positions.lineno is not None} - {k.co_firstlineno}
                r = reachable_lines(k, name)
                if r:
                    return r
        return set()

    # executable = the compiler emitted reachable code for the line (a handler whose try body cannot
    # raise is dead code)
    exec_f = own_lines(code, "f") & reachable_lines(code, "f")
    exec_g = own_lines(code, "g")
    exec_meth = own_lines(code, "meth")
    exec_deep = own_lines(code, "deep")
    ok, err = True, ""
    try:
        sp, _m = pyn.load_sut(mod, str(wd), metrics=("BRANCH", "LINE"), to_cover=to_cover(case["scope"], mod))
    except BaseException as ex:  # noqa: BLE001
        ok, err = False, f"{type(ex).__name__}: {ex}"
        sp = None
    (wd / f"{mod}.py").unlink(missing_ok=True)
    sys.modules.pop(mod, None)
    body = set(line_of.values())
    want_lines = sorted({line_of[tuple(p)] for p in case["goals"]} & exec_f)
    want_preds = sorted({line_of[tuple(p)] for p in case["preds"]} & exec_f)
    excl_lines = sorted(line_of[tuple(p)] for p in case["excluded"])
    ev = {"ok": ok, "error": err, "scope": case["scope"], "fcov": case["fcov"], "gcov": case["gcov"],
          "methcov": case["methcov"], "want_lines": want_lines, "want_pred_lines": want_preds, "excl_lines": excl_lines,
          "g_exec": len(exec_g), "meth_exec": len(exec_meth), "deep_exec": len(exec_deep),
          "deepcov": case.get("deepcov", True), "source": src}
    if sp is None:
        ev.update({"py_line_goals": [], "py_pred_lines": [], "g_goals": 0, "g_preds": 0, "meth_goals": 0,
                   "meth_preds": 0, "deep_goals": 0, "deep_preds": 0, "deep_code_object": False, "main_goals": 0, "main_preds": 0, "tc_goals": 0, "tc_preds": 0,
                   "f_code_object": False, "g_code_object": False, "meth_code_object": False})
        return ev
    goal_lines = {m.line_number for m in sp.existing_lines.values()}
    pred_lines = [m.line_no for m in sp.existing_predicates.values()]
    names = {m.code_object.co_name for m in sp.existing_code_objects.values()}

    def cnt(lines_, r):
        return sum(1 for x in lines_ if x in r)

    # the spec's predicate lines exist only where the compiler kept a reachable conditional jump
    ev.update({
        "py_line_goals": sorted(goal_lines & body), "py_pred_lines": sorted({x for x in pred_lines if x in body}),
        "g_goals": cnt(goal_lines, reg["g"]) - (1 if reg["g"][0] in goal_lines else 0), "g_preds": cnt(pred_lines, reg["g"]),
        "meth_goals": cnt(goal_lines, reg["meth"]) - (1 if reg["meth"][0] in goal_lines else 0),
        "meth_preds": cnt(pred_lines, reg["meth"]),
        "deep_goals": cnt(goal_lines, reg["deep"]) - (1 if reg["deep"][0] in goal_lines else 0),
        "deep_preds": cnt(pred_lines, reg["deep"]), "deep_code_object": "deep" in names,
        "main_goals": cnt(goal_lines, range(reg["main"][0] + 1, reg["main"][-1] + 1)),
        "main_preds": cnt(pred_lines, range(reg["main"][0] + 1, reg["main"][-1] + 1)),
        "tc_goals": cnt(goal_lines, range(reg["tc"][0] + 1, reg["tc"][-1] + 1)),
        "tc_preds": cnt(pred_lines, range(reg["tc"][0] + 1, reg["tc"][-1] + 1)),
        "f_code_object": "f" in names, "g_code_object": "g" in names, "meth_code_object": "meth" in names,
    })
    return ev


def render_with_clauses(prog, excl):
    """pymini.render variant that also puts markers on `else:` / `finally:` clause lines."""
    lines = ["import pm_rt", "", "", "def f(d, m):"]
    line_of: dict[tuple, int] = {}
    marks: dict[tuple, int] = {}
    clause_line: dict[tuple, int] = {}
    form = [0]

    def emit(text, ind, path, clause=None):
        key = path if path is not None else clause
        lines.append("    " * ind + text + (("  " + excl[key]) if key in excl else ""))
        if path is not None:
            line_of[path] = len(lines)
        if clause is not None:
            clause_line[clause] = len(lines)

    def cond():
        c = pymini.COND_FORMS[form[0] % len(pymini.COND_FORMS)]
        form[0] += 1
        return c

    def block(blk, p, tag, ind):
        for i, s in enumerate(blk, start=1):
            stmt(s, p + (tag, i), ind)

    def stmt(s, p, ind):
        t = s["t"]
        if t == "mark":
            marks[p] = len(marks) + 1
            emit(f"m.append({marks[p]})", ind, p)
        elif t == "ret":
            emit("return -1", ind, p)
        elif t == "break":
            emit("break", ind, p)
        elif t == "cont":
            emit("continue", ind, p)
        elif t == "raise":
            emit(f"raise pm_rt.E{s['e']}()", ind, p)
        elif t in ("if", "while", "for"):
            head = {"if": f"if {cond()}:" if t == "if" else "", "while": "", "for": ""}
            if t == "if":
                emit(f"if {cond()}:", ind, p)
            elif t == "while":
                emit(f"while {cond()}:", ind, p)
            else:
                emit(f"for _i in range({s['k']}):", ind, p)
            block(s["a"], p, 1, ind + 1)
            other = s["b"] if t == "if" else s["e"]
            if other:
                emit("else:", ind, None, clause=p + (2, 0))
                block(other, p, 2, ind + 1)
        elif t == "try":
            emit("try:", ind, p)
            block(s["a"], p, 1, ind + 1)
            if s["x"]:
                cls = {1: "pm_rt.E1", 2: "pm_rt.E2", 9: "Exception"}[s["x"]]
                emit(f"except {cls}:", ind, p + (3, 0))
                block(s["h"], p, 3, ind + 1)
            if s.get("o"):
                emit("else:", ind, None, clause=p + (5, 0))
                block(s["o"], p, 5, ind + 1)
            if s["f"]:
                emit("finally:", ind, None, clause=p + (4, 0))
                block(s["f"], p, 4, ind + 1)

    block(prog, (), 0, 1)
    emit("return len(m)", 1, (0, len(prog) + 1))
    return "\n".join(lines) + "\n", line_of, {"marks": marks, "def_line": 4}, clause_line

"""Abstract Cache action (spec/CacheOps.tla) -> real call on pynguin's chromosomes; real objects ->
abstract projection.

Real: TestCaseChromosome, TestSuiteChromosome, ComputationCache, TestCaseMutation,
TestSuiteMutation, splice_* crossover, TestFactory on a real test cluster, TestCaseChromosomeFactory,
the `_run_test_*_chromosome` machinery of the computation base classes.
Stub: the executor (returns an ExecutionResult whose `payload` is the content version of the test
case it was asked to run) and the fitness/coverage functions (subclasses of the real base classes;
value = deterministic function of the content version(s) of the execution results they are given).
Nothing here decides a property: events carry what was returned and what a from-scratch
computation on pristine chromosomes with the current statements returns.
"""

from __future__ import annotations

import zlib

import libcst as cst

import pynguin.configuration as config
import pynguin.ga.computations as ff
import pynguin.ga.testcasechromosome as tcc
import pynguin.ga.testcasechromosomefactory as tccf
import pynguin.ga.testcasefactory as tcf
import pynguin.ga.testsuitechromosome as tsc
import pynguin.testcase.testcase as tc
import pynguin.testcase.testfactory as tf
from pynguin.analyses.module import generate_test_cluster
from pynguin.ga.operators import mutation as mutmod
from pynguin.testcase.execution_result import ExecutionResult
from pynguin.utils import randomness
from pynguin.utils.orderedset import OrderedSet

NT = 5  # test chromosome slots of a recorded world
NT_X = 8  # ... of a world of the two-suite family (modes PX*: two suites of two tests, a spare test)
NS = 2  # suite slots
SUT_MODULE = "harness.adapters.cache_sut"

CUR: "World | None" = None  # the world the stub executor interns into


class Overflow(Exception):
    """More live objects than slots: the trace ends before this call."""


# --------------------------------------------------------------------------------------
# stubs
# --------------------------------------------------------------------------------------
class StubExecutor:
    """execute() = 'run' the test: the result carries the version of the statements it ran."""

    def __init__(self) -> None:
        self.executions = 0

    def execute(self, test_case):
        self.executions += 1
        r = ExecutionResult()
        r.payload = CUR.version(test_case)
        return r

    def execute_multiple(self, test_cases):
        return [self.execute(t) for t in test_cases]


def _fit1(v: int) -> float:
    return 0.0 if v % 2 == 0 else float(v)


def _fit2(v: int) -> float:
    return 0.0 if v % 3 == 0 else float(v)


def _cov1(v: int) -> float:
    return 1.0 / (1.0 + v)


class TFit(ff.TestCaseFitnessFunction):
    def __init__(self, executor, name, fn):
        super().__init__(executor, 0)
        self.name = name
        self._fn = fn

    def compute_fitness(self, individual) -> float:
        return self._fn(self._run_test_case_chromosome(individual).payload)

    def compute_is_covered(self, individual) -> bool:
        return self._fn(self._run_test_case_chromosome(individual).payload) == 0.0

    def is_maximisation_function(self) -> bool:
        return False


class TCov(ff.TestCaseCoverageFunction):
    def __init__(self, executor, name, fn):
        super().__init__(executor)
        self.name = name
        self._fn = fn

    def compute_coverage(self, individual) -> float:
        return self._fn(self._run_test_case_chromosome(individual).payload)


class SFit(ff.TestSuiteFitnessFunction):
    def __init__(self, executor, name, fn):
        super().__init__(executor)
        self.name = name
        self._fn = fn

    def compute_fitness(self, individual) -> float:
        return self._fn(CUR.suite_version(self._run_test_suite_chromosome(individual)))

    def compute_is_covered(self, individual) -> bool:
        return self._fn(CUR.suite_version(self._run_test_suite_chromosome(individual))) == 0.0

    def is_maximisation_function(self) -> bool:
        return False


class SCov(ff.TestSuiteCoverageFunction):
    def __init__(self, executor, name, fn):
        super().__init__(executor)
        self.name = name
        self._fn = fn

    def compute_coverage(self, individual) -> float:
        return self._fn(CUR.suite_version(self._run_test_suite_chromosome(individual)))


class _MutationSpy:
    """Recording wrapper around the module's TestCaseMutation singleton: which chromosomes did
    TestSuiteMutation.mutate ask to mutate."""

    def __init__(self, real):
        self._real = real
        self.log: list = []

    def mutate(self, chromosome):
        self.log.append(chromosome)
        return self._real.mutate(chromosome)

    def __getattr__(self, name):
        return getattr(self._real, name)


class _FactorySpy:
    """Recording wrapper around the real TestCaseChromosomeFactory handed to suites."""

    def __init__(self, real):
        self._real = real
        self.log: list = []

    def get_chromosome(self):
        c = self._real.get_chromosome()
        self.log.append(c)
        return c


_ENV = None


class Env:
    def __init__(self) -> None:
        cfgc = config.configuration
        cfgc.module_name = SUT_MODULE
        cfgc.search_algorithm.chromosome_length = 8
        cfgc.search_algorithm.chop_max_length = True
        cfgc.search_algorithm.test_insertion_probability = 0.3
        cfgc.search_algorithm.test_delete_probability = 0.4
        cfgc.search_algorithm.test_change_probability = 0.4
        cfgc.search_algorithm.test_insert_probability = 0.4
        cfgc.test_creation.max_size = 3
        self.cluster = generate_test_cluster(SUT_MODULE)
        self.factory = tf.TestFactory(self.cluster)
        self.executor = StubExecutor()
        ex = self.executor
        self.tfun = {"f1": TFit(ex, "f1", _fit1), "f2": TFit(ex, "f2", _fit2), "g1": TCov(ex, "g1", _cov1)}
        self.sfun = {"f1": SFit(ex, "f1", _fit1), "f2": SFit(ex, "f2", _fit2), "g1": SCov(ex, "g1", _cov1)}
        self.chrom_factory = _FactorySpy(tccf.TestCaseChromosomeFactory(
            self.factory, tcf.RandomLengthTestCaseFactory(self.factory, self.cluster),
            OrderedSet([self.tfun["f1"], self.tfun["f2"]])))
        if not isinstance(mutmod._TEST_CASE_MUTATION, _MutationSpy):
            mutmod._TEST_CASE_MUTATION = _MutationSpy(mutmod._TEST_CASE_MUTATION)
        self.mut_spy = mutmod._TEST_CASE_MUTATION


def env() -> Env:
    global _ENV
    if _ENV is None:
        _ENV = Env()
    return _ENV


# --------------------------------------------------------------------------------------
# world of real objects
# --------------------------------------------------------------------------------------
DEAD_T = {"al": False, "ow": 0, "c": 0, "sut": False, "chg": False, "res": -1,
          "ff": [], "cf": [], "fk": [], "ik": [], "ck": []}
DEAD_S = {"al": False, "mem": [], "chg": False, "ff": [], "cf": [], "fk": [], "ik": [], "ck": []}


class World:
    def __init__(self, nt: int = NT) -> None:
        self.nt = nt
        self.tests: dict[int, tcc.TestCaseChromosome] = {}
        self.suites: dict[int, tsc.TestSuiteChromosome] = {}
        self.codes: dict[tuple, int] = {}
        self._ncache: dict[int, tuple] = {}
        self.svals: dict[tuple, int] = {(): 0}
        self.vals: dict[str, int] = {}

    # content versions -------------------------------------------------------------
    def _stmt_code(self, node) -> str:
        # CST nodes are immutable: source text per node object (the node is kept so its id is not reused)
        ent = self._ncache.get(id(node))
        if ent is None or ent[0] is not node:
            ent = (node, cst.Module(body=[node]).code)
            self._ncache[id(node)] = ent
        return ent[1]

    def content(self, test_case) -> tuple:
        """the statements as they are now (not TestCase's own cached to_code())."""
        return tuple(self._stmt_code(st.node) for st in test_case.statements())

    def version(self, test_case) -> int:
        key = self.content(test_case)
        if not key:
            return 0
        return self.codes.setdefault(key, len(self.codes) + 1)

    def suite_version(self, results) -> int:
        key = tuple(sorted({r.payload for r in results} - {0}))
        return self.svals.setdefault(key, len(self.svals))

    def val(self, x) -> int:
        return self.vals.setdefault(repr(x), len(self.vals))

    # slots ------------------------------------------------------------------------
    def slot_of_test(self, obj) -> int:
        for k, v in self.tests.items():
            if v is obj:
                return k
        return 0

    def owner(self, obj) -> int:
        for k, s in self.suites.items():
            if any(m is obj for m in s.test_case_chromosomes):
                return k
        return 0

    def free_t(self) -> list[int]:
        return [i for i in range(1, self.nt + 1) if i not in self.tests]

    def free_s(self) -> list[int]:
        return [i for i in range(1, NS + 1) if i not in self.suites]

    # projection -------------------------------------------------------------------
    def trec(self, slot: int) -> dict:
        o = self.tests.get(slot)
        if o is None:
            return DEAD_T
        e = env()
        cc = o.computation_cache
        res = o.get_last_execution_result()
        return {"al": True, "ow": self.owner(o), "c": self.version(o.test_case),
                "sut": bool(e.factory.has_call_on_sut(o.test_case)), "chg": bool(o.changed),
                "res": -1 if res is None else res.payload,
                "ff": [f.name for f in o.get_fitness_functions()],
                "cf": [f.name for f in o.get_coverage_functions()],
                "fk": sorted(f.name for f in cc._fitness_cache),
                "ik": sorted(f.name for f in cc._is_covered_cache),
                "ck": sorted(f.name for f in cc._coverage_cache)}

    def srec(self, slot: int) -> dict:
        o = self.suites.get(slot)
        if o is None:
            return DEAD_S
        cc = o.computation_cache
        return {"al": True, "mem": [self.slot_of_test(m) for m in o.test_case_chromosomes],
                "chg": bool(o.changed),
                "ff": [f.name for f in o.get_fitness_functions()],
                "cf": [f.name for f in o.get_coverage_functions()],
                "fk": sorted(f.name for f in cc._fitness_cache),
                "ik": sorted(f.name for f in cc._is_covered_cache),
                "ck": sorted(f.name for f in cc._coverage_cache)}

    def project(self) -> dict:
        return {"t": [self.trec(i) for i in range(1, self.nt + 1)],
                "s": [self.srec(i) for i in range(1, NS + 1)]}

    # bookkeeping after a call: removed members die, new members get the smallest slots that
    # were free before the call (in the order given, else suite/member order) -- CacheOps.Slots
    def sync(self, free_before: list[int], new_order: list | None = None) -> None:
        known = {id(o) for o in self.tests.values()}
        new = []
        for o in (new_order or []):
            if id(o) not in known:
                known.add(id(o))
                new.append(o)
        for k in sorted(self.suites):
            for m in self.suites[k].test_case_chromosomes:
                if id(m) not in known:
                    known.add(id(m))
                    new.append(m)
        if len(new) > len(free_before):
            raise Overflow
        for slot, o in zip(free_before, new):
            self.tests[slot] = o
        held = {id(m) for s in self.suites.values() for m in s.test_case_chromosomes}
        for slot in list(self.tests):
            o = self.tests[slot]
            was_member = getattr(o, "_verif_owned", False)
            if id(o) in held:
                o._verif_owned = True
            elif was_member or (new_order is not None and any(o is n for n in new)):
                del self.tests[slot]  # dropped by its suite (or created and dropped at once)


# --------------------------------------------------------------------------------------
# building the initial population
# --------------------------------------------------------------------------------------
def _prim_test(n: int) -> tc.TestCase:
    t = tc.TestCase()
    name = t.next_var_name()
    t.add_statement(tc.Statement(node=cst.parse_statement(f"{name} = {1000 + n}"),
                                 bound_variable=name, bound_type=int))
    return t


def _sut_test(w: World) -> tc.TestCase:
    e = env()
    for _ in range(200):
        t = tc.TestCase()
        for _ in range(3):
            e.factory.insert_random_statement(t, t.size())
            if e.factory.has_call_on_sut(t):
                break
        if e.factory.has_call_on_sut(t) and w.content(t) not in w.codes:
            return t
    raise RuntimeError("cannot build a test with a call on the SUT")


def build(ip: dict, seed: int) -> World:
    """The initial world of Cache.InitWorld(sut1, regF, regC) on real objects."""
    global CUR
    e = env()
    two = str(ip.get("mode", "")).startswith("PX")
    w = World(NT_X if two else NT)
    CUR = w
    randomness.RNG.seed(seed)
    t1 = tcc.TestCaseChromosome(_sut_test(w) if ip["sut1"] else _prim_test(1), e.factory)
    w.version(t1.test_case)
    for n in (("f1", "f2") if ip["regF"] else ()):
        t1.add_fitness_function(e.tfun[n])
    for n in (("g1",) if ip["regC"] else ()):
        t1.add_coverage_function(e.tfun[n])
    w.tests[1] = t1
    if two:
        # Cache.InitWorldX: two live suites <<2, 3>> and <<4, 5>> of distinct factory tests
        slot = 2
        for sid in (1, 2):
            s = tsc.TestSuiteChromosome(e.chrom_factory)
            for _ in range(2):
                for _ in range(400):
                    t = e.chrom_factory.get_chromosome()
                    if e.factory.has_call_on_sut(t.test_case) and w.content(t.test_case) not in w.codes:
                        break
                else:
                    raise RuntimeError("factory gives no further test with a call on the SUT")
                w.version(t.test_case)
                s.add_test_case_chromosome(t)
                w.tests[slot] = t
                t._verif_owned = True
                slot += 1
            for n in ("f1", "f2"):
                s.add_fitness_function(e.sfun[n])
            s.add_coverage_function(e.sfun["g1"])
            w.suites[sid] = s
        e.chrom_factory.log.clear()
    elif ip.get("ns", 1) >= 1:
        for _ in range(200):
            t2 = e.chrom_factory.get_chromosome()
            if e.factory.has_call_on_sut(t2.test_case) and w.content(t2.test_case) not in w.codes:
                break
        else:
            raise RuntimeError("factory gives no test with a call on the SUT")
        e.chrom_factory.log.clear()
        if str(ip.get("mode", "")).startswith("M"):  # focus modes: members answer coverage queries too
            t2.add_coverage_function(e.tfun["g1"])
        s1 = tsc.TestSuiteChromosome(e.chrom_factory)
        s1.add_test_case_chromosome(t2)
        for n in (("f1", "f2") if ip["regF"] else ()):
            s1.add_fitness_function(e.sfun[n])
        for n in (("g1",) if ip["regC"] else ()):
            s1.add_coverage_function(e.sfun[n])
        w.tests[2] = t2
        t2._verif_owned = True
        w.suites[1] = s1
    return w


# --------------------------------------------------------------------------------------
# from-scratch recomputation on pristine chromosomes with the current statements
# --------------------------------------------------------------------------------------
def _pristine_test(o):
    return tcc.TestCaseChromosome(o.test_case.clone(), env().factory)


def _pristine_suite(o):
    s = tsc.TestSuiteChromosome()
    for m in o.test_case_chromosomes:
        s.add_test_case_chromosome(_pristine_test(m))
    return s


def _fresh(level: str, o, kind: str, fobj):
    p = _pristine_test(o) if level == "t" else _pristine_suite(o)
    if kind == "fit":
        return fobj.compute_fitness(p)
    if kind == "isc":
        return fobj.compute_is_covered(p)
    if kind == "cov":
        return fobj.compute_coverage(p)
    for f in o.get_fitness_functions():
        p.add_fitness_function(f)
    for f in o.get_coverage_functions():
        p.add_coverage_function(f)
    return p.get_fitness() if kind == "fitsum" else p.get_coverage()


# --------------------------------------------------------------------------------------
# replay
# --------------------------------------------------------------------------------------
def _live_t(w, a):
    return a in w.tests


def _top_t(w, a):
    return a in w.tests and w.owner(w.tests[a]) == 0


def _applicable(w: World, act: dict) -> bool:
    op, a, b = act["op"], act["a"], act["b"]
    if op in ("tq", "taddf", "taddc", "tinv"):
        return _live_t(w, a)
    if op in ("sq", "saddf", "saddc", "sinv", "smut"):
        return a in w.suites
    if op == "tclone":
        return _live_t(w, a) and bool(w.free_t())
    if op == "sclone":
        return a in w.suites and bool(w.free_s()) and len(w.free_t()) >= w.suites[a].size()
    if op == "tmut":
        return _top_t(w, a)
    if op == "txo":
        return _top_t(w, a) and _top_t(w, b) and a != b
    if op in ("sadd", "sadds"):
        return a in w.suites and _top_t(w, b)
    if op == "sdel":
        return a in w.suites and _live_t(w, b) and w.owner(w.tests[b]) in (0, a)
    if op == "sset":
        return a in w.suites and _top_t(w, b) and 1 <= act["p"] <= w.suites[a].size()
    if op == "sxo":
        return (a in w.suites and b in w.suites and a != b
                and 0 <= act["p"] <= w.suites[a].size() and 0 <= act["q"] <= w.suites[b].size()
                and len(w.free_t()) >= w.suites[b].size() - act["q"])
    return False


def _out(w, o, slot, did=True):
    return {"id": slot, "c": w.version(o.test_case), "chg": bool(o.changed),
            "sut": bool(env().factory.has_call_on_sut(o.test_case)), "did": did}


def replay(beh: dict, seed: int = 0) -> dict:
    """Execute one abstract history on real chromosomes; return the recorded trace
    {"w0": initial projection, "ev": [event, ...], "skipped": n, "end": why}."""
    global CUR
    e = env()
    base = zlib.crc32(repr((seed, beh.get("ip"), beh.get("k", 0))).encode())
    w = build(beh["ip"], base)
    w0 = w.project()
    prev = w0
    events: list[dict] = []
    skipped = 0
    end = "done"
    for step, act0 in enumerate(beh["hist"]):
        CUR = w
        act = dict(act0)
        if not _applicable(w, act):
            skipped += 1
            continue
        op, a, b = act["op"], act["a"], act["b"]
        randomness.RNG.seed(base + 7919 * (step + 1))
        free_before = w.free_t()
        ev = {"op": op, "a": a, "b": b, "p": act["p"], "q": act["q"], "f": act["f"], "k": act["k"],
              "reg": False, "raised": False, "exc": "", "ret": -1, "fresh": -1,
              "out": {"ts": [], "added": []}}
        new_order = None
        try:
            if op in ("tq", "sq"):
                lvl = "t" if op == "tq" else "s"
                o = w.tests[a] if lvl == "t" else w.suites[a]
                kind = act["k"]
                fobj = (e.tfun if lvl == "t" else e.sfun).get(act["f"])
                if kind in ("fit", "isc"):
                    ev["reg"] = any(fobj is x for x in o.get_fitness_functions())
                elif kind == "cov":
                    ev["reg"] = any(fobj is x for x in o.get_coverage_functions())
                elif kind == "fitsum":
                    ev["reg"] = True
                else:
                    ev["reg"] = len(o.get_coverage_functions()) > 0
                try:
                    if kind == "fit":
                        r = o.get_fitness_for(fobj)
                    elif kind == "isc":
                        r = o.get_is_covered(fobj)
                    elif kind == "cov":
                        r = o.get_coverage_for(fobj)
                    elif kind == "fitsum":
                        r = o.get_fitness()
                    else:
                        r = o.get_coverage()
                    ev["ret"] = w.val(r)
                except Exception as ex:  # noqa: BLE001 - whatever the getter raises is the observation
                    ev["raised"] = True
                    ev["exc"] = type(ex).__name__
                if not ev["raised"]:
                    try:
                        ev["fresh"] = w.val(_fresh(lvl, o, kind, fobj))
                    except Exception:  # noqa: BLE001 - no from-scratch value exists (e.g. mean of nothing)
                        ev["fresh"] = -2
            elif op == "taddf":
                w.tests[a].add_fitness_function(e.tfun[act["f"]])
            elif op == "taddc":
                w.tests[a].add_coverage_function(e.tfun[act["f"]])
            elif op == "saddf":
                w.suites[a].add_fitness_function(e.sfun[act["f"]])
            elif op == "saddc":
                w.suites[a].add_coverage_function(e.sfun[act["f"]])
            elif op == "tinv":
                w.tests[a].invalidate_cache()
            elif op == "sinv":
                w.suites[a].invalidate_cache()
            elif op == "tclone":
                ev["b"] = free_before[0]
                w.tests[free_before[0]] = w.tests[a].clone()
                free_before = free_before[1:]
            elif op == "sclone":
                ev["b"] = w.free_s()[0]
                w.suites[ev["b"]] = w.suites[a].clone()
            elif op == "tmut":
                w.tests[a].mutate()
                ev["out"]["ts"] = [_out(w, w.tests[a], a)]
            elif op == "txo":
                o, other = w.tests[a], w.tests[b]
                p1 = randomness.next_int(0, o.size() + 1)
                p2 = randomness.next_int(0, other.size() + 1)
                ev["p"], ev["q"] = p1, p2
                o.cross_over(other, p1, p2)
                ev["out"]["ts"] = [_out(w, o, a)]
            elif op == "sadd":
                w.suites[a].add_test_case_chromosome(w.tests[b])
            elif op == "sadds":
                w.suites[a].add_test_case_chromosomes([w.tests[b]])
            elif op == "sdel":
                w.suites[a].delete_test_case_chromosome(w.tests[b])
            elif op == "sset":
                w.suites[a].set_test_case_chromosome(act["p"] - 1, w.tests[b])
            elif op == "sxo":
                w.suites[a].cross_over(w.suites[b], act["p"], act["q"])
            elif op == "smut":
                s = w.suites[a]
                pre = [(w.slot_of_test(m), m) for m in s.test_case_chromosomes]
                e.mut_spy.log.clear()
                e.chrom_factory.log.clear()
                s.mutate()
                did = {id(x) for x in e.mut_spy.log}
                ev["out"]["ts"] = [_out(w, m, slot, id(m) in did) for slot, m in pre]
                new_order = list(e.chrom_factory.log)
                ev["out"]["added"] = [{"c": w.version(n.test_case),
                                       "sut": bool(e.factory.has_call_on_sut(n.test_case))}
                                      for n in new_order]
            else:
                raise ValueError(op)
            w.sync(free_before, new_order)
        except Overflow:
            end = "overflow"
            break
        except Exception as ex:  # noqa: BLE001 - an operator failed; not a cache matter, trace ends
            end = f"error:{op}:{type(ex).__name__}"
            break
        post = w.project()
        ev["tp"] = [{"id": i + 1, "r": post["t"][i]} for i in range(w.nt) if post["t"][i] != prev["t"][i]]
        ev["sp"] = [{"id": i + 1, "r": post["s"][i]} for i in range(NS) if post["s"][i] != prev["s"][i]]
        prev = post
        events.append(ev)
    return {"w0": compact(w0), "w0full": w0, "ev": events, "skipped": skipped, "end": end}


def compact(w0: dict) -> dict:
    """initial world for the trace spec: live chromosomes only."""
    return {"nt": len(w0["t"]), "ns": NS,
            "t": [{"id": i + 1, "r": r} for i, r in enumerate(w0["t"]) if r["al"]],
            "s": [{"id": i + 1, "r": r} for i, r in enumerate(w0["s"]) if r["al"]]}

"""Shared end-to-end corpus: run harness.adapters.e2e_runner for a list of configurations.

Runs are cached under .cache/e2e/<hash of /repo/src + harness runner + cfg>/ so that the
properties sharing the corpus (C16 C17 C18 C19 C21 C22 C24 C35) do not re-run Pynguin for an
unchanged tree; an edited tree always re-runs.
"""

from __future__ import annotations

import hashlib
import json
import os
import shutil
import signal
import subprocess
import sys
from concurrent.futures import ThreadPoolExecutor
from pathlib import Path

ROOT = Path(__file__).resolve().parents[2]
CORPUS = ROOT / "harness" / "sut" / "corpus"
CACHE = ROOT / ".cache" / "e2e"
MODULES = ["c_numeric", "c_string", "c_container", "c_state", "c_enum", "c_float", "c_hashy", "c_report"]


def tree_hash() -> str:
    repo = Path(os.environ.get("VERIF_REPO", "/repo")) / "src" / "pynguin"
    h = hashlib.sha1()
    for p in sorted(repo.rglob("*.py")):
        h.update(str(p.relative_to(repo)).encode())
        h.update(p.read_bytes())
    for p in [Path(__file__), Path(__file__).with_name("e2e_runner.py"), *sorted(CORPUS.glob("*.py"))]:
        h.update(p.read_bytes())
    return h.hexdigest()[:16]


def run_one(args) -> dict:
    cfg, th, timeout = args
    cfg = dict(cfg)
    cfg.setdefault("src_dir", str(CORPUS))
    key = hashlib.sha1(json.dumps(cfg, sort_keys=True).encode()).hexdigest()[:16]
    out = CACHE / th / key
    done = out / "done.json"
    (CACHE / th).mkdir(parents=True, exist_ok=True)
    # several checks share this corpus and may run at the same time: one runner per key
    import fcntl  # noqa: PLC0415

    with open(CACHE / th / f"{key}.lock", "w") as lock:
        fcntl.flock(lock, fcntl.LOCK_EX)
        return _run_locked(cfg, out, done, timeout)


def _run_locked(cfg: dict, out: Path, done: Path, timeout: int) -> dict:
    if done.exists():
        return load(out, cfg, cached=True)
    shutil.rmtree(out, ignore_errors=True)
    out.mkdir(parents=True)
    (out / "cfg.json").write_text(json.dumps(cfg))
    env = dict(os.environ)
    env["PYTHONHASHSEED"] = str(cfg.get("hashseed", 0))
    env["PYNGUIN_DANGER_AWARE"] = "1"
    env["PYTHONPATH"] = f"{ROOT}:{os.environ.get('VERIF_REPO', '/repo')}/src"
    p = subprocess.Popen([sys.executable, "-m", "harness.adapters.e2e_runner", str(out / "cfg.json"), str(out)],
                         cwd=str(ROOT), env=env, stdout=subprocess.DEVNULL, stderr=subprocess.PIPE,
                         start_new_session=True)
    hung = False
    try:
        _, err = p.communicate(timeout=timeout)
    except subprocess.TimeoutExpired:
        hung = True
        try:
            os.killpg(p.pid, signal.SIGKILL)
        except ProcessLookupError:
            pass
        _, err = p.communicate()
    done.write_text(json.dumps({"hung": hung, "rc": p.returncode,
                                "stderr_tail": (err or b"").decode(errors="replace")[-2000:]}))
    res = load(out, cfg, cached=False)
    if not res["events"]:
        done.unlink(missing_ok=True)  # the runner itself failed: never cache that
    return res


def load(out: Path, cfg: dict, cached: bool) -> dict:
    evs = []
    f = out / "events.ndjson"
    if f.exists():
        for ln in f.read_text().splitlines():
            if ln.strip():
                evs.append(json.loads(ln))
    meta = json.loads((out / "done.json").read_text())
    return {"cfg": cfg, "events": evs, "dir": str(out), "cached": cached, **meta}


def run_many(cfgs: list[dict], timeout: int = 900, parallel: int = 6) -> list[dict]:
    th = tree_hash()
    # prune caches of other trees, but only old ones: a check against another tree (a scratch worktree,
    # or /repo before a commit) may still be running
    import time  # noqa: PLC0415

    if CACHE.exists():
        for d in CACHE.iterdir():
            try:
                if d.name != th and time.time() - d.stat().st_mtime > 6 * 3600:
                    shutil.rmtree(d, ignore_errors=True)
            except OSError:
                pass
    with ThreadPoolExecutor(max_workers=parallel) as ex:
        return list(ex.map(run_one, [(c, th, timeout) for c in cfgs]))


def first(events: list[dict], name: str) -> dict | None:
    for e in events:
        if e["ev"] == name:
            return e
    return None


# ---------------------------------------------------------------------------------------------
# shared pipeline corpus (C16 C18 C19 C21 C22 C24)
# ---------------------------------------------------------------------------------------------
STRATS = [("CASE", "BACKWARD"), ("CASE", "FORWARD"), ("SUITE", "BACKWARD"), ("COMBINED", "BACKWARD"),
          ("SUITE", "FORWARD"), ("COMBINED", "FORWARD"), ("NONE", "BACKWARD")]


def pipe_configs(quick: bool) -> list[dict]:
    out = []
    seeds = [3] if quick else [3, 17, 29]
    modes = ["SIMPLE", "MUTATION_ANALYSIS", "NONE"]
    algs = ["DYNAMOSA", "MIO", "WHOLE_SUITE"]
    k = 0
    for si, seed in enumerate(seeds):
        for mi, mod in enumerate(MODULES):
            picks = [(mi + si) % 3] if quick else [0, 1, 2]
            for m in picks:
                st, di = STRATS[(k + m) % len(STRATS)]
                mode = modes[m]
                if mod == "c_numeric" and mode == "MUTATION_ANALYSIS":
                    # mutants of c_numeric's while loop do not terminate; every one of them leaves an abandoned
                    # spinning thread behind and the analysis exceeds any sensible time limit (C21 observed the
                    # same): this module gets plain assertion generation instead
                    mode = "SIMPLE"
                out.append({"module": mod, "seed": seed + mi, "algorithm": algs[(mi + m + si) % 3], "iterations": 4,
                            "assertions": mode, "metrics": "BRANCH", "population": 5,
                            "min_strategy": st, "min_direction": di})
                k += 1
    return out


def norm(code: str) -> str:
    """Source of one statement, independent of layout and of the quote style of string literals (the
    exported file is formatted by black, the snapshots come from the test case's own CST)."""
    import ast  # noqa: PLC0415

    try:
        code = ast.unparse(ast.parse(code.strip()))
    except (SyntaxError, ValueError):
        pass
    return "".join(code.split())


def run_pytest(run: dict, timeout: int = 300) -> dict:
    """Run pytest on the exported file against the ORIGINAL module (fresh interpreter)."""
    import xml.etree.ElementTree as ET  # noqa: PLC0415

    exp = first(run["events"], "Export")
    res = {"collected": False, "syntax_error": False, "tests": {}, "rc": -1, "tail": ""}
    if exp is None or not exp["text"]:
        return res
    path = Path(exp["path"])
    xml = path.parent / "junit.xml"
    env = dict(os.environ)
    env["PYTHONPATH"] = f"{run['cfg']['src_dir']}"
    env.pop("SE2P_PYNGUIN_VERIF", None)
    try:
        compile(exp["text"], str(path), "exec")
    except SyntaxError:
        res["syntax_error"] = True
    p = subprocess.run([sys.executable, "-m", "pytest", "-p", "no:cacheprovider", "-p", "no:randomly", "-q",
                        f"--junitxml={xml}", "--timeout=60", str(path)],
                       cwd=str(path.parent), env=env, capture_output=True, text=True, timeout=timeout)
    res["rc"] = p.returncode
    res["tail"] = (p.stdout + p.stderr)[-1200:]
    if xml.exists():
        root = ET.parse(xml).getroot()
        for tcase in root.iter("testcase"):
            name = tcase.get("name")
            outcome = "passed"
            for child in tcase:
                if child.tag == "failure":
                    outcome = "failed"
                elif child.tag == "error":
                    outcome = "error"
                elif child.tag == "skipped":
                    outcome = "xfailed" if (child.get("type") or "").endswith("xfail") else "skipped"
            res["tests"][name] = outcome
        res["collected"] = p.returncode in (0, 1) and "error" not in {o for o in res["tests"].values()} or bool(res["tests"])
        if p.returncode in (2, 3, 4):
            res["collected"] = False
    return res

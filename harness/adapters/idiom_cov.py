"""Line and branch ground truth for the idiom corpus (C02, C03).

Every idiom function lives in its own module (idioms.split).  The uninstrumented module is run
under sys.monitoring (LINE and BRANCH events of every code object of that file); the instrumented
module is run through Pynguin's import hook with the tracer entered.  Both sides are projected per
input to: executed lines, per line the truth values taken at conditional jumps / FOR_ITER, and
(statically) the number of conditional jumps per line."""

from __future__ import annotations

import dis
import importlib
import multiprocessing as mp
import sys
import types
from pathlib import Path

from harness.adapters import idioms
from harness.adapters.pymini import _reachable, _truthy_of

INPUTS = idioms.INPUTS


def _code_objects(code: types.CodeType):
    yield code
    for c in code.co_consts:
        if isinstance(c, types.CodeType):
            yield from _code_objects(c)


class _CodeInfo:
    def __init__(self, code):
        self.instrs = {i.offset: i for i in dis.get_instructions(code)}
        live = _reachable(code, self.instrs)
        self.jumps = {off: i for off, i in self.instrs.items()
                      if (i.opname.startswith("POP_JUMP_IF") or i.opname == "FOR_ITER") and off in live}
        offs = sorted(self.instrs)
        self.nxt = {off: (offs[k + 1] if k + 1 < len(offs) else None) for k, off in enumerate(offs)}


def _main_guard_lines(src: str) -> set:
    import ast  # noqa: PLC0415

    out: set = set()
    for node in ast.parse(src).body:
        if isinstance(node, ast.If) and isinstance(node.test, ast.Compare) and \
                isinstance(node.test.left, ast.Name) and node.test.left.id == "__name__":
            out.update(range(node.lineno, node.end_lineno + 1))
    return out


def ground(name: str, moddir: str) -> dict:
    if moddir not in sys.path:
        sys.path.insert(0, moddir)
    if idioms.SUT_DIR not in sys.path:
        sys.path.insert(0, idioms.SUT_DIR)
    mod_name = f"idm_{name}"
    sys.modules.pop(mod_name, None)
    importlib.invalidate_caches()
    fname = str(Path(moddir) / f"{mod_name}.py")
    src = open(fname).read()
    guard = _main_guard_lines(src)  # `if __name__ == "__main__":` is never a coverage goal (C08)
    infos: dict = {}

    def info(code):
        ci = infos.get(code)
        if ci is None:
            ci = infos[code] = _CodeInfo(code)
        return ci

    mon = sys.monitoring
    tool = 4
    mon.use_tool_id(tool, "verif-idioms")
    lines: set = set()
    branches: dict = {}

    def on_line(code, line):
        if code.co_filename == fname:
            if line not in guard:
                lines.add(line)
        else:
            return mon.DISABLE
        return None

    def on_branch(code, src, dst):
        if code.co_filename != fname:
            return mon.DISABLE
        ci = info(code)
        if src in ci.jumps:
            branches.setdefault((code, src), set()).add(bool(dst != ci.nxt[src]))
        return None

    raised = [0]

    def on_raise(code, off, exc):
        if code.co_filename == fname:
            raised[0] += 1

    mon.register_callback(tool, mon.events.LINE, on_line)
    mon.register_callback(tool, mon.events.BRANCH, on_branch)
    mon.register_callback(tool, mon.events.RAISE, on_raise)
    per_x = []

    def outcomes() -> dict:
        out: dict = {}
        for (code, src), takens in branches.items():
            ins = info(code).jumps[src]
            for taken in takens:
                tv = _truthy_of(ins.opname, taken)
                if tv is not None and ins.positions.lineno not in guard:
                    out.setdefault(ins.positions.lineno or 0, set()).add(tv)
        return out

    try:
        # the import itself: its lines and outcomes are part of every result Pynguin reports
        mon.set_events(tool, mon.events.LINE | mon.events.BRANCH)
        try:
            mod = importlib.import_module(mod_name)
        finally:
            mon.set_events(tool, 0)
        import_lines, import_out = set(lines), outcomes()
        fn = getattr(mod, name)
        for x in INPUTS:
            lines.clear()
            branches.clear()
            raised[0] = 0
            mon.restart_events()
            mon.set_events(tool, mon.events.LINE | mon.events.BRANCH | mon.events.RAISE)
            try:
                obs = idioms._observe(fn, x)  # noqa: SLF001
            finally:
                mon.set_events(tool, 0)
            out = outcomes()
            for ln, v in import_out.items():
                out.setdefault(ln, set()).update(v)
            per_x.append({"lines": sorted(lines | import_lines), "out": sorted([ln, sorted(v)] for ln, v in out.items()),
                          "obs": obs, "raised": raised[0] > 0})
    finally:
        mon.register_callback(tool, mon.events.RAISE, None)
        mon.register_callback(tool, mon.events.LINE, None)
        mon.register_callback(tool, mon.events.BRANCH, None)
        mon.free_tool_id(tool)
    # static: conditional jumps per line over every code object of the module
    njumps: dict = {}
    module_lines: set = set()
    for code in _code_objects(compile(src, fname, "exec")):
        module_lines.update(ln for _, _, ln in code.co_lines() if ln is not None)
        for ins in _CodeInfo(code).jumps.values():
            ln = ins.positions.lineno or 0
            if ln in guard:
                continue
            njumps[ln] = njumps.get(ln, 0) + 1
    sys.modules.pop(mod_name, None)
    return {"per_x": per_x, "njumps": sorted([ln, n] for ln, n in njumps.items()),
            "module_lines": sorted(module_lines)}


def _project(sp, trace, import_lines) -> dict:
    # a line id without a line number is projected to line 0 (never executed by the interpreter)
    lines = sorted({ln or 0 for ln in sp.lineids_to_linenos(trace.covered_line_ids)} - import_lines)
    pred_line = {p: meta.line_no for p, meta in sp.existing_predicates.items()}
    out: dict = {}
    for p, dist in trace.true_distances.items():
        if dist == 0.0:
            out.setdefault(pred_line[p] or 0, set()).add(True)
    for p, dist in trace.false_distances.items():
        if dist == 0.0:
            out.setdefault(pred_line[p] or 0, set()).add(False)
    return {"lines": lines, "out": sorted([ln, sorted(v)] for ln, v in out.items())}


def _child(conn, names, metrics, moddir):
    import logging  # noqa: PLC0415

    logging.disable(logging.CRITICAL)
    from harness.adapters import pyn  # noqa: PLC0415

    try:
        for name in names:
            try:
                sp, mod = pyn.load_sut(f"idm_{name}", moddir, metrics=metrics)
            except Exception as ex:  # noqa: BLE001
                conn.send((name, {"ok": False, "error": f"{type(ex).__name__}: {ex}"[:300]}))
                continue
            tracer = sp.instrumentation_tracer
            per_x, traces = [], []
            with tracer:
                # what Pynguin reports after an execution = import trace merged with the execution's
                # own trace (init_trace); the ground truth is built the same way
                import_lines: set = set()
                for x in INPUTS:
                    tracer.init_trace()
                    obs = idioms._observe(getattr(mod, name), x)  # noqa: SLF001
                    traces.append(tracer.get_trace())
                    per_x.append({**_project(sp, traces[-1], import_lines), "obs": obs,
                                  "enabled_after": not tracer.is_disabled()})
            # suite-level analysis of the cached results (ga/fitness_metrics.analyze_results), in both
            # orders, must neither change the individual results nor invent anything
            import pynguin.ga.fitness_metrics as ff  # noqa: PLC0415
            from pynguin.testcase.execution import ExecutionResult  # noqa: PLC0415

            results = []
            for tr in traces:
                res = ExecutionResult()
                res.execution_trace = tr
                results.append(res)
            merged = _project(sp, ff.analyze_results(results), import_lines)
            ff.analyze_results(results[::-1])
            for px, tr in zip(per_x, traces):
                again = _project(sp, tr, import_lines)
                px["lines_after"], px["out_after"] = again["lines"], again["out"]
                px["merged_lines"] = merged["lines"]
            npreds: dict = {}
            for meta in sp.existing_predicates.values():
                npreds[meta.line_no or 0] = npreds.get(meta.line_no or 0, 0) + 1
            goals = sorted({meta.line_number or 0 for meta in sp.existing_lines.values()})
            conn.send((name, {"ok": True, "per_x": per_x, "npreds": sorted([ln, n] for ln, n in npreds.items()),
                              "line_goals": goals}))
    finally:
        conn.close()


def instrumented_all(args) -> dict:
    names, metrics, moddir = args
    ctxm = mp.get_context("fork")
    a, b = ctxm.Pipe(duplex=False)
    p = ctxm.Process(target=_child, args=(b, names, metrics, moddir))
    p.start()
    b.close()
    out: dict = {}
    timed_out = False
    try:
        while len(out) < len(names):
            if not a.poll(900):  # big stdlib modules under CHECKED on a loaded machine take minutes
                timed_out = True
                break
            name, r = a.recv()
            out[name] = r
    except EOFError:
        pass
    p.join(5)
    if p.is_alive():
        p.kill()
        p.join(2)
    missing = [n for n in names if n not in out]
    if len(names) == 1 and missing:
        # killed by this harness after the time limit: no observation (drift); died on its own: a crash
        out[names[0]] = {"ok": False, "timeout": timed_out,
                         "error": ("no answer within the time limit" if timed_out
                                   else f"child died (exit code {p.exitcode})")}
    else:
        for name in missing:  # attribute a crash to the function that causes it
            out.update(instrumented_all(([name], metrics, moddir)))
    return out

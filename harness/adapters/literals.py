"""C20 / C23 adapter (component Literals).

Abstract value term (TLA+ record [k, c, es], enumerated by MC_Literals) -> concrete Python value;
the value through the REAL code paths:

* C20: RemoteAssertionTraceObserver._handle decides which assertions exist for the value at a
  position (bound variable / field of a watched object / module global / class static field);
  assertion_to_cst renders; the rendered statement is compiled and executed in the namespace of a
  test file written by the real TestSuiteWriter.
* C23: literalgen.literal_to_cst / parse_literal / generate_literal / mutate_literal.

Everything returned is an observation (what the real code did) projected into the abstract
domain of LiteralsOps.tla: value descriptors [k, c, es] with a canonical key per leaf (exact:
hex floats, NaN collapsed to "nan", sign of zero kept, type kept), rendered-syntax shapes, outcomes.
No property is decided here.
"""

from __future__ import annotations

import importlib
import json
import math
import random
import sys
import types
from decimal import Decimal
from pathlib import Path

import libcst as cst

SUT_DIR = str(Path(__file__).resolve().parent.parent / "sut")
SUT = "lit_sut"

# --------------------------------------------------------------------------------------------
# representatives
# --------------------------------------------------------------------------------------------

_NAN = float("nan")

LEAF_REPS = {
    "int": {"i_neg": -5, "i_negone": -1, "i_zero": 0, "i_one": 1, "i_pos": 5, "i_huge": 10 ** 400, "i_neghuge": -(10 ** 400),
            "i_digits": 10 ** 4400, "i_negdigits": -(10 ** 4400)},
    "bool": {"b_true": True, "b_false": False},
    "none": {"n_none": None},
    "float": {"f_nan": _NAN, "f_inf": math.inf, "f_ninf": -math.inf, "f_negzero": -0.0, "f_zero": 0.0,
              "f_neg": -1.5, "f_pos": 1.5, "f_negfrac": -0.25, "f_frac": 0.25, "f_integral": 3.0, "f_exp": 1e22, "f_smallexp": 1.5e-07,
              "f_sub": 5e-324, "f_max": 1.7976931348623157e308, "f_negmax": -1.7976931348623157e308},
    "str": {"s_plain": "abc", "s_squote": "it's", "s_dquote": 'say "hi"', "s_both": "'\"",
            "s_backslash": "a\\b", "s_newline": "a\nb\r\t\x00", "s_nonascii": "é€\U0001f600",
            "s_surrogate": "\ud800x", "s_empty": ""},
    "bytes": {"y_plain": b"abc", "y_squote": b"it's", "y_dquote": b'say "hi"', "y_both": b"'\"",
              "y_backslash": b"a\\b", "y_newline": b"a\nb\r\t\x00", "y_high": b"\xff\x80", "y_empty": b""},
}

ENUM_CLASSES = ["e_top", "e_int", "e_negint", "e_str", "e_strquote", "e_flag", "e_flagcombo", "e_flagzero",
                "e_nested", "e_private", "e_foreign"]
OBJ_CLASSES = ["o_plain", "o_nested", "o_private", "o_local", "o_dynamic", "o_foreign", "o_decimal",
               "o_sized", "o_sized_raises", "o_bytearray", "o_range", "o_dict_keys", "o_function",
               "o_generator", "o_module", "o_type", "o_deeplist", "o_floatsub", "o_intsub", "o_holder_float",
               "o_foreign_nested"]

_sut = None


def sut():
    """Import the module under test (plain import; C20 does not need instrumentation)."""
    global _sut
    if _sut is None:
        import pynguin.configuration as config  # noqa: PLC0415
        if SUT_DIR not in sys.path:
            sys.path.insert(0, SUT_DIR)
        config.configuration.module_name = SUT
        _sut = importlib.import_module(SUT)
    return _sut


class _FloatSub(float):
    pass


class _IntSub(int):
    pass


def _gen():
    yield 1


def _enum_or_obj(c: str):
    m = sut()
    other = sys.modules["lit_other"]
    table = {
        "e_top": lambda: m.Color.RED, "e_int": lambda: m.Level.LOW, "e_negint": lambda: m.Level.HIGH,
        "e_str": lambda: m.Tag.A, "e_strquote": lambda: m.Tag.Q, "e_flag": lambda: m.Perm.R,
        "e_flagcombo": lambda: m.Perm.R | m.Perm.W, "e_flagzero": lambda: m.Perm(0),
        "e_nested": lambda: m.Outer.Mode.ON, "e_private": lambda: m._Hidden.H,  # noqa: SLF001
        "e_foreign": m.foreign_enum,
        "o_plain": m.Plain, "o_nested": m.Outer.Inner, "o_private": m._Private,  # noqa: SLF001
        "o_local": m.make_local, "o_dynamic": m.make_dynamic, "o_foreign": other.Thing,
        "o_decimal": lambda: Decimal("1.5"), "o_sized": m.Sized, "o_sized_raises": m.SizedRaises,
        "o_bytearray": lambda: bytearray(b"ab"), "o_range": lambda: range(3),
        "o_dict_keys": lambda: {1: 2}.keys(), "o_function": lambda: (lambda: 0), "o_generator": _gen,
        "o_module": lambda: math, "o_type": lambda: int, "o_deeplist": lambda: [[[[[[1]]]]]],
        "o_floatsub": lambda: _FloatSub(2.5), "o_intsub": lambda: _IntSub(7),
        "o_holder_float": lambda: m.Holder(2.5), "o_foreign_nested": other.Thing.Part,
    }
    return table[c]()


def _random_member(kind: str, c: str, rng: random.Random):
    """A random member of leaf class c (thorough tier, member index > 0)."""
    if kind == "int":
        return {"i_neg": lambda: -rng.randint(1, 2 ** 70), "i_pos": lambda: rng.randint(1, 2 ** 70),
                "i_huge": lambda: rng.randint(10 ** 309, 10 ** 600),
                "i_neghuge": lambda: -rng.randint(10 ** 309, 10 ** 600),
                "i_digits": lambda: 10 ** rng.randint(4301, 5000) + rng.randint(0, 99),
                "i_negdigits": lambda: -(10 ** rng.randint(4301, 5000) + rng.randint(0, 99))}.get(c, lambda: LEAF_REPS[kind][c])()
    if kind == "float":
        def fin():
            while True:
                x = rng.uniform(1e-3, 1e6)
                if x != int(x):
                    return x
        return {"f_neg": lambda: -fin(), "f_pos": fin, "f_negfrac": lambda: -rng.uniform(1e-4, 0.999),
                "f_frac": lambda: rng.uniform(1e-4, 0.999), "f_integral": lambda: float(rng.randint(1, 10 ** 15)),
                "f_exp": lambda: rng.uniform(1, 9.99) * 10 ** rng.randint(17, 300),
                "f_smallexp": lambda: rng.uniform(1, 9.99) * 10 ** -rng.randint(5, 300),
                "f_sub": lambda: rng.randint(1, 2 ** 40) * 5e-324}.get(c, lambda: LEAF_REPS[kind][c])()
    if kind in ("str", "bytes"):
        base = LEAF_REPS[kind][c]
        if not base:
            return base
        n = rng.randint(0, 6)
        if kind == "str":
            pad = "".join(rng.choice("abcXYZ 019_") for _ in range(n))
            return pad[: n // 2] + base + pad[n // 2:]
        pad = bytes(rng.choice(b"abcXYZ 019_") for _ in range(n))
        return pad[: n // 2] + base + pad[n // 2:]
    return LEAF_REPS[kind][c]


def build(term: dict, m: int = 0, rng: random.Random | None = None):
    """Abstract value term -> fresh concrete value (member m of every leaf class)."""
    k, c, es = term["k"], term["c"], term["es"]
    if k in LEAF_REPS:
        if m and rng is not None:
            return _random_member(k, c, rng)
        return LEAF_REPS[k][c]
    if k in ("enum", "obj"):
        return _enum_or_obj(c)
    if k == "complex":
        return complex(build(es[0], m, rng), build(es[1], m, rng))
    if k == "list":
        return [build(e, m, rng) for e in es]
    if k == "tuple":
        return tuple(build(e, m, rng) for e in es)
    if k == "set":
        return {build(e, m, rng) for e in es}
    if k == "frozenset":
        return frozenset(build(e, m, rng) for e in es)
    if k == "dict":
        return {build(p["es"][0], m, rng): build(p["es"][1], m, rng) for p in es}
    raise ValueError(f"unknown term kind {k}")


# --------------------------------------------------------------------------------------------
# concrete value -> abstract descriptor (same record shape as the terms)
# --------------------------------------------------------------------------------------------

NONE_NODE = {"k": "-", "c": "", "es": []}


def node(k: str, c: str = "", es: list | None = None) -> dict:
    return {"k": k, "c": c, "es": es or []}


def _key(d: dict) -> str:
    return json.dumps(d, sort_keys=True)


def desc(v) -> dict:
    """Exact abstract descriptor of a concrete value: two values have the same descriptor (up to
    the order of set elements / dict entries, which LiteralsOps!Same ignores) iff they have the same
    type and are equal with the sign of zero kept and NaN matching NaN."""
    import enum  # noqa: PLC0415
    t = type(v)
    if v is None:
        return node("none", "None")
    if t is bool:
        return node("bool", "True" if v else "False")
    if t is int:
        return node("int", hex(v))
    if t is float:
        return node("float", "nan" if v != v else v.hex())  # noqa: PLR0124
    if t is complex:
        return node("complex", "", [desc(v.real), desc(v.imag)])
    if t is str:
        return node("str", v.encode("utf-8", "surrogatepass").hex())
    if t is bytes:
        return node("bytes", v.hex())
    if t in (list, tuple):
        return node(t.__name__, "", [desc(e) for e in v])
    if t in (set, frozenset):
        return node(t.__name__, "", sorted((desc(e) for e in v), key=_key))
    if t is dict:
        return node("dict", "", sorted((node("pair", "", [desc(a), desc(b)]) for a, b in v.items()), key=_key))
    if isinstance(v, enum.Enum):
        return node("enum", f"{t.__qualname__}.{v.name}")
    return node("obj", f"{t.__module__}.{t.__qualname__}")


_CLASS_OF: dict[str, tuple[str, str]] = {}


def _class_table() -> dict[str, tuple[str, str]]:
    if not _CLASS_OF:
        for kind, reps in LEAF_REPS.items():
            for c, v in reps.items():
                _CLASS_OF[_key(desc(v))] = (kind, c)
    return _CLASS_OF


def classify(v) -> dict:
    """Concrete value -> abstract term over the class names of the representatives ("?" when the
    value is no representative).  Only meaningful for member index 0."""
    d = desc(v)

    def rec(d: dict) -> dict:
        if d["k"] in ("complex", "list", "tuple", "set", "frozenset", "dict", "pair"):
            return node(d["k"], "", [rec(e) for e in d["es"]])
        hit = _class_table().get(_key(d))
        return node(d["k"], hit[1] if hit else "?")
    return rec(d)


# --------------------------------------------------------------------------------------------
# CST -> abstract rendered syntax (shape)
# --------------------------------------------------------------------------------------------

def _leaf_class(v) -> str:
    hit = _class_table().get(_key(desc(v)))
    return hit[1] if hit else "?"


def shape(n: cst.CSTNode) -> dict:
    """libcst expression -> abstract syntax of LiteralsOps (Int/Float/Neg/FloatCall/...)."""
    if isinstance(n, cst.Integer):
        # base 0: decimal / hex / octal / binary literals (power-of-two bases have no digit limit)
        kind = {"0x": "HexInt", "0b": "BinInt", "0o": "OctInt"}.get(n.value[:2].lower(), "Int")
        try:
            return node(kind, _leaf_class(int(n.value, 0)))
        except ValueError:  # decimal literal beyond the int string conversion limit
            return node(kind, "i_digits")
    if isinstance(n, cst.Float):
        return node("Float", _leaf_class(float(n.value)))
    if isinstance(n, cst.UnaryOperation) and isinstance(n.operator, cst.Minus):
        return node("Neg", "", [shape(n.expression)])
    if isinstance(n, cst.SimpleString):
        v = n.evaluated_value
        return node("Bytes" if isinstance(v, bytes) else "Str", _leaf_class(v))
    if isinstance(n, cst.Name):
        return node("Name", n.value)
    if isinstance(n, cst.Attribute):
        return node("Attr", "")
    if isinstance(n, cst.Call) and isinstance(n.func, cst.Name):
        if n.func.value == "float" and len(n.args) == 1 and isinstance(n.args[0].value, cst.SimpleString):
            s = str(n.args[0].value.evaluated_value)
            return node("FloatCall", {"nan": "f_nan", "inf": "f_inf", "-inf": "f_ninf"}.get(s, "?"))
        if n.func.value == "complex" and len(n.args) == 2:
            return node("ComplexCall", "", [shape(a.value) for a in n.args])
        if n.func.value == "set" and not n.args:
            return node("SetCall")
    if isinstance(n, cst.List):
        return node("List", "", [shape(e.value) for e in n.elements])
    if isinstance(n, cst.Tuple):
        return node("Tuple", "", [shape(e.value) for e in n.elements])
    if isinstance(n, cst.Set):
        return node("Set", "", [shape(e.value) for e in n.elements])
    if isinstance(n, cst.Dict):
        return node("Dict", "", [node("DictElem", "", [shape(e.key), shape(e.value)]) for e in n.elements])
    return node("Other", type(n).__name__)


def code_of(n: cst.CSTNode) -> str:
    return cst.Module(body=[]).code_for_node(n)


# --------------------------------------------------------------------------------------------
# C20
# --------------------------------------------------------------------------------------------

POSITIONS = ("var", "field", "global", "static")
AKIND = {"FloatAssertion": "float", "ObjectAssertion": "object", "IsInstanceAssertion": "isinstance",
         "TypeNameAssertion": "typename", "CollectionLengthAssertion": "len"}


def alias() -> str:
    from pynguin.utils.naming import get_module_alias  # noqa: PLC0415
    return get_module_alias(SUT)


def observe_assertions(value, pos: str):
    """The assertions the real RemoteAssertionTraceObserver creates when *value* is observed at
    position *pos* after a statement binding var_0.  Returns (assertions, bindings) where bindings
    is what must be bound/installed so that the assertion sources resolve."""
    from pynguin.assertion.assertiontraceobserver import RemoteAssertionTraceObserver  # noqa: PLC0415
    m = sut()
    obs = RemoteAssertionTraceObserver()
    ns = {alias(): m}
    undo = []
    if pos == "var":
        ns["var_0"] = value
    elif pos == "field":
        ns["var_0"] = m.Holder(value)
    elif pos == "global":
        ns["var_0"] = 1
        m.GLOBAL_SLOT = value
        undo.append(lambda: delattr(m, "GLOBAL_SLOT"))
    elif pos == "static":
        ns["var_0"] = m.StaticHolder()
        m.StaticHolder.SLOT = value
        undo.append(lambda: delattr(m.StaticHolder, "SLOT"))
    else:
        raise ValueError(pos)
    try:
        obs._handle("var_0", ns, 0)  # noqa: SLF001
        found = list(obs.get_trace().get_assertions(0))
    except BaseException:
        for u in undo:
            u()
        raise
    return found, ns, undo


_EXPORT_NS: dict[tuple[str, str], dict] = {}


def export_namespace(workdir: Path, nctx: str, akind: str, seed: int) -> dict:
    """Namespace of a test file written by the real TestSuiteWriter for a suite whose only
    assertion is of kind *akind*; nctx 'plain' = no statement raises and the SUT does not use
    `random` (seed=None), 'fixture' = the writer emits the reseeding fixture (seed given)."""
    key = (nctx, akind)
    if key in _EXPORT_NS:
        return dict(_EXPORT_NS[key])
    import pynguin.assertion.assertion as ass  # noqa: PLC0415
    import pynguin.ga.testcasechromosome as tcc  # noqa: PLC0415
    import pynguin.ga.testsuitechromosome as tsc  # noqa: PLC0415
    import pynguin.testcase.testcase as tc  # noqa: PLC0415
    from pynguin.testcase import export  # noqa: PLC0415
    sut()
    al = alias()
    first = {"float": "var_0 = 2.5", "object": "var_0 = 7", "isinstance": f"var_0 = {al}.Plain()",
             "typename": f"var_0 = {al}.foreign_object()", "len": f"var_0 = {al}.Sized()"}[akind]
    a = {"float": lambda: ass.FloatAssertion("var_0", 2.5), "object": lambda: ass.ObjectAssertion("var_0", 7),
         "isinstance": lambda: ass.IsInstanceAssertion("var_0", SUT, "Plain"),
         "typename": lambda: ass.TypeNameAssertion("var_0", "lit_other", "Thing"),
         "len": lambda: ass.CollectionLengthAssertion("var_0", 3)}[akind]()
    t = tc.TestCase()
    s0 = tc.Statement(node=cst.parse_statement(first), bound_variable="var_0", bound_type=None)
    s0.assertions.append(a)
    t.add_statement(s0)
    # a use of var_0 keeps statement 0 (and its assertion) through remove_unused_variables
    t.add_statement(tc.Statement(node=cst.parse_statement(f"var_1 = {al}.Holder(var_0)"), bound_variable="var_1",
                                 bound_type=list))
    suite = tsc.TestSuiteChromosome()
    suite.add_test_case_chromosome(tcc.TestCaseChromosome(t))
    out = workdir / f"export-{nctx}-{akind}"
    path = export.TestSuiteWriter(no_xfail=False).write(
        suite, SUT, out, project_path=None, format_with_black=False,
        seed=None if nctx == "plain" else seed)
    src = Path(path).read_text()
    saved_seed = random.Random.seed
    ns: dict = {"__name__": "test_" + SUT}
    try:
        exec(compile(src, str(path), "exec"), ns)  # noqa: S102 - defines test functions only
    finally:
        random.Random.seed = saved_seed
    ns["__export_src__"] = src
    _EXPORT_NS[key] = ns
    return dict(ns)


def check_value(term: dict, pos: str, m: int, seed: int, workdir: Path) -> list[dict]:
    """All observations for one (value, position): one event per (assertion, export context).

    oc: "raise" (assertion_to_cst raised) | "nocompile" | "pass" | "fail" (AssertionError) |
    "error" (any other exception; its name in exc)."""
    from pynguin.assertion.assertion_to_ast import assertion_to_cst  # noqa: PLC0415
    rng = random.Random(f"{seed}/{_key(term)}/{pos}/{m}")
    value = build(term, m, rng)
    base = {"case": term, "pos": pos, "m": m}
    try:
        found, bind_ns, undo = observe_assertions(value, pos)
    except BaseException as ex:  # noqa: BLE001
        return [dict(base, op="observer_raised", exc=type(ex).__name__, akinds=[])]
    pairs = [(AKIND.get(type(a).__name__, type(a).__name__), _rel(a.source)) for a in found]
    akinds = sorted({(k, s) for k, s in pairs if s != "sub"})
    akinds = [list(x) for x in akinds]
    events = []
    try:
        if not found:
            return [dict(base, op="noassert", akinds=[])]
        for a, (ak, src) in zip(found, pairs):
            exc, code, oc = "", "", ""
            try:
                n = assertion_to_cst(a)
                code = cst.Module(body=[n]).code if n is not None else ""
            except BaseException as ex:  # noqa: BLE001
                oc, exc = "raise", type(ex).__name__
            cobj = None
            if not oc:
                try:
                    cobj = compile(code, "<assertion>", "exec")
                except BaseException as ex:  # noqa: BLE001
                    oc, exc = "nocompile", type(ex).__name__
            for nctx in ("plain", "fixture"):
                o, e = oc, exc
                if cobj is not None:
                    ns = export_namespace(workdir, nctx, ak if ak in AKIND.values() else "object", seed)
                    ns["var_0"] = bind_ns["var_0"]
                    try:
                        exec(cobj, ns)  # noqa: S102
                        o = "pass"
                    except AssertionError:
                        o, e = "fail", "AssertionError"
                    except BaseException as ex:  # noqa: BLE001
                        o, e = "error", type(ex).__name__
                events.append(dict(base, op="assert", akinds=akinds, ak=ak, src=src, nctx=nctx, oc=o, exc=e,
                                   code=code[:300]))
    finally:
        for u in undo:
            u()
    return events


def _rel(source: str) -> str:
    """Assertion source relative to the position: var_0 -> 'self', var_0.field -> 'field', ..."""
    al = alias()
    return {"var_0": "self", "var_0.field": "field", f"{al}.GLOBAL_SLOT": "global",
            f"{al}.StaticHolder.SLOT": "static"}.get(source, "sub")


# --------------------------------------------------------------------------------------------
# C23 (a): literal_to_cst / parse_literal on representatives
# --------------------------------------------------------------------------------------------

PY_TYPE = {"bool": bool, "int": int, "float": float, "complex": complex, "str": str, "bytes": bytes,
           "list": list, "tuple": tuple, "set": set, "dict": dict, "frozenset": frozenset, "none": type(None)}


def _eval(code: str, extra: dict | None = None):
    ns = {"__builtins__": __builtins__}
    if extra:
        ns.update(extra)
    return eval(compile(code, "<literal>", "eval"), ns)  # noqa: S307


def render_value(term: dict, m: int, seed: int) -> dict:
    from pynguin.testcase import literalgen as lg  # noqa: PLC0415
    rng = random.Random(f"{seed}/{_key(term)}/{m}")
    value = build(term, m, rng)
    ev = {"op": "render", "case": term, "m": m, "raised": "", "compiles": False, "evalok": False,
          "v": desc(value), "back": NONE_NODE, "backc": NONE_NODE, "shape": NONE_NODE,
          "p_raised": "", "p_some": False, "parsed": NONE_NODE, "code": ""}
    try:
        n = lg.literal_to_cst(value)
        code = code_of(n)
    except BaseException as ex:  # noqa: BLE001
        ev["raised"] = type(ex).__name__
        return ev
    ev["code"] = code[:300]
    ev["shape"] = shape(n)
    try:
        compile(code, "<literal>", "eval")
        ev["compiles"] = True
    except BaseException:  # noqa: BLE001
        return ev
    try:
        w = _eval(code)
        ev["evalok"] = True
        ev["back"] = desc(w)
        ev["backc"] = classify(w) if m == 0 else NONE_NODE
    except BaseException:  # noqa: BLE001
        pass
    raw = PY_TYPE.get(term["k"])
    if raw is not None and raw is not type(None):
        try:
            p = lg.parse_literal(n, raw)
            if p is not None:
                ev["p_some"] = True
                ev["parsed"] = desc(p)
        except BaseException as ex:  # noqa: BLE001
            ev["p_raised"] = type(ex).__name__
    return ev


# --------------------------------------------------------------------------------------------
# C23 (c): parse-only literal inputs (integer literal tokens stated by MC_Literals)
# --------------------------------------------------------------------------------------------

_DIGITS = "0123456789abcdef_"          # token 16 = underscore (LiteralsOps!US)
_PREFIX = {10: "", 16: "0x", 2: "0b", 8: "0o"}
_BASE_NAME = {10: "dec", 16: "hex", 2: "bin", 8: "oct"}
X_NONE = {"k": "-", "sg": 2, "hx": [], "es": []}


def tok_text(tok: dict) -> str:
    """Integer literal token [sg, base, ds, up] -> its source text (nothing is computed here)."""
    body = _PREFIX[tok["base"]] + "".join(_DIGITS[d] for d in tok["ds"])
    return tok["sg"] + (body.upper() if tok["up"] else body)


def lit_code(t: dict) -> str:
    """Literal expression term of LiteralsOps (LN) -> source text."""
    k, es = t["k"], t["es"]
    if k == "Int":
        return tok_text(t["tok"])
    if k == "Complex":
        return f"complex({lit_code(es[0])}, {lit_code(es[1])})"
    if k == "List":
        return "[" + ", ".join(lit_code(e) for e in es) + "]"
    if k == "Tuple":
        return "(" + ", ".join(lit_code(e) for e in es) + ("," if len(es) == 1 else "") + ")"
    if k == "Set":
        return "{" + ", ".join(lit_code(e) for e in es) + "}"
    if k == "Dict":
        return "{" + ", ".join(f"{lit_code(e['es'][0])}: {lit_code(e['es'][1])}" for e in es) + "}"
    raise ValueError(f"unknown literal term {k}")


def _limbs(v: int) -> list[int]:
    return [int(ch, 16) for ch in format(abs(v), "x")] if v else []


def xdesc(v) -> dict:
    """Exact descriptor [k, sg, hx, es] of LiteralsOps: ints as sign + base-16 limbs, integral floats like
    the int they equal (-0.0: sg -1 without limbs), everything else sg 2."""
    t = type(v)
    if t is int:
        return {"k": "int", "sg": (v > 0) - (v < 0), "hx": _limbs(v), "es": []}
    if t is float:
        if math.isfinite(v) and v == int(v):
            sg = -1 if math.copysign(1.0, v) < 0 else (1 if v > 0 else 0)
            return {"k": "float", "sg": sg, "hx": _limbs(int(v)), "es": []}
        return {"k": "float", "sg": 2, "hx": [], "es": []}
    if t is complex:
        return {"k": "complex", "sg": 0, "hx": [], "es": [xdesc(v.real), xdesc(v.imag)]}
    if t in (list, tuple):
        return {"k": t.__name__, "sg": 0, "hx": [], "es": [xdesc(e) for e in v]}
    if t in (set, frozenset):
        return {"k": t.__name__, "sg": 0, "hx": [], "es": sorted((xdesc(e) for e in v), key=_key)}
    if t is dict:
        return {"k": "dict", "sg": 0, "hx": [],
                "es": sorted(({"k": "pair", "sg": 0, "hx": [], "es": [xdesc(a), xdesc(b)]} for a, b in v.items()), key=_key)}
    return {"k": t.__name__, "sg": 2, "hx": [], "es": []}


def lit_label(case: dict) -> str:
    n = case["name"]
    sign = {"": "pos", "-": "neg", "+": "plus"}[n["sg"]]
    return (f"{case['ctx']}/{sign}-{_BASE_NAME[n['base']]}/{n['pat']}/us-{n['us']}" + ("/upper" if n["up"] else "")
            + (f"#{case['m']}" if case["m"] else ""))


def parse_input(case: dict):
    """A literal Pynguin did not render (as found in a seeded / parsed test case), given as source text:
    parse_literal, get_literal_value on a statement `var_0 = <text>`, and the local-search write-back
    set_literal_value(<parsed value>) followed by another read.  Returns (event, expression or None)."""
    from pynguin.testcase import literalgen as lg  # noqa: PLC0415
    from pynguin.testcase import localsearchstatement as ls  # noqa: PLC0415
    import pynguin.testcase.testcase as tc  # noqa: PLC0415
    raw = PY_TYPE[case["req"]]
    code = lit_code(case["lit"])
    ev = {"op": "parse", "lit": case["lit"], "req": case["req"], "ctx": case["ctx"], "label": lit_label(case),
          "m": case["m"], "code": code[:200], "code_len": len(code), "compiles": False, "evalok": False, "xv": X_NONE,
          "p_raised": "", "p_some": False, "pv": X_NONE, "g_raised": "", "g_some": False, "gv": X_NONE,
          "w_raised": "", "w_wrote": False, "w_code": "", "w_evalok": False, "w_xv": X_NONE, "w_some": False,
          "wv": X_NONE}
    try:
        compile(code, "<literal>", "eval")
        expr = cst.parse_expression(code)
        ev["compiles"] = True
    except BaseException:  # noqa: BLE001
        return ev, None
    try:
        ev["xv"] = xdesc(_eval(code))
        ev["evalok"] = True
    except BaseException:  # noqa: BLE001
        pass
    try:
        p = lg.parse_literal(expr, raw)
        if p is not None:
            ev["p_some"], ev["pv"] = True, xdesc(p)
    except BaseException as ex:  # noqa: BLE001
        ev["p_raised"] = type(ex).__name__
    t = tc.TestCase()
    t.add_statement(tc.Statement(node=cst.parse_statement(f"var_0 = {code}"), bound_variable="var_0", bound_type=raw))
    g = None
    try:
        g = ls.get_literal_value(t.get_statement(0), raw)
        if g is not None:
            ev["g_some"], ev["gv"] = True, xdesc(g)
    except BaseException as ex:  # noqa: BLE001
        ev["g_raised"] = type(ex).__name__
    if g is not None:
        try:
            ev["w_wrote"] = bool(ls.set_literal_value(t, 0, g))
            stmt = t.get_statement(0)
            wcode = code_of(stmt.node.body[0].value)
            ev["w_code"] = wcode[:200]
            try:
                ev["w_xv"] = xdesc(_eval(wcode))
                ev["w_evalok"] = True
            except BaseException:  # noqa: BLE001
                pass
            w = ls.get_literal_value(stmt, raw)
            if w is not None:
                ev["w_some"], ev["wv"] = True, xdesc(w)
        except BaseException as ex:  # noqa: BLE001
            ev["w_raised"] = type(ex).__name__
    return ev, expr


# --------------------------------------------------------------------------------------------
# C23 (b): generate_literal / mutate_literal under configuration flag combinations
# --------------------------------------------------------------------------------------------

SEED_POOL = [0, -1, 7, 2 ** 70, -(10 ** 400),
             -0.0, _NAN, math.inf, -math.inf, 1e22, -2.5, 5e-324,
             complex(-0.0, 1.0), complex(1.0, -0.0), complex(_NAN, math.inf), 1 + 2j,
             "it's", 'say "hi"', "a\\b\n", "\ud800", "", "-", "é",
             b"it's", b"\xff\x00\\", b""]

POOL_VARS = {"var_7": 41, "var_8": 42}


class LoggingProvider:
    """A real DelegatingConstantProvider over a real ConstantPool that logs what it hands out."""

    def __new__(cls, pool_values):
        from pynguin.analyses import constants as C  # noqa: PLC0415, N812

        class _P(C.DelegatingConstantProvider):
            def __init__(self, pool):
                super().__init__(pool, C.EmptyConstantProvider(), 1.0)
                self.log = []

            def get_constant_for(self, tp_):
                v = super().get_constant_for(tp_)
                self.log.append((tp_, v))
                return v

        pool = C.ConstantPool()
        for v in pool_values:
            pool.add_constant(v)
        return _P(pool)


def _configure(flags: dict) -> None:
    import pynguin.configuration as config  # noqa: PLC0415
    c = config.configuration
    tcfg = c.test_creation
    sizes = flags["sizes"]
    if sizes == "default":
        d = config.TestCreationConfiguration()
        tcfg.max_int, tcfg.string_length, tcfg.bytes_length = d.max_int, d.string_length, d.bytes_length
        tcfg.collection_size, tcfg.max_delta = d.collection_size, d.max_delta
    elif sizes == "tiny":
        tcfg.max_int, tcfg.string_length, tcfg.bytes_length, tcfg.collection_size, tcfg.max_delta = 1, 1, 1, 1, 1
    elif sizes == "large":
        tcfg.max_int, tcfg.string_length, tcfg.bytes_length = 10 ** 300, 60, 60
        tcfg.collection_size, tcfg.max_delta = 50, 10 ** 300
    else:
        raise ValueError(sizes)
    c.seeding.seeded_primitives_reuse_probability = 1.0 if flags["seeding"] == "always" else 0.0
    c.string_statement.token_assembly_probability = 1.0 if flags["assembly"] == "on" else 0.0
    tcfg.collection_reference_probability = 1.0 if flags["pool"] == "refs" else 0.0
    c.search_algorithm.random_perturbation = {"never": 0.0, "always": 1.0}[flags["perturb"]]


def _observe_expr(ev: dict, n, raw, prefix: str = "") -> object:
    from pynguin.testcase import literalgen as lg  # noqa: PLC0415
    code = code_of(n)
    ev[prefix + "code"] = code[:200]
    try:
        compile(code, "<literal>", "eval")
        ev[prefix + "compiles"] = True
    except BaseException:  # noqa: BLE001
        return None
    try:
        w = _eval(code, POOL_VARS)
    except BaseException:  # noqa: BLE001
        return None
    ev[prefix + "evalok"] = True
    ev[prefix + "back"] = desc(w)
    # re-render the evaluated value and evaluate again
    try:
        code2 = code_of(lg.literal_to_cst(w))
        w2 = _eval(code2)
        ev[prefix + "rr_ok"] = True
        ev[prefix + "back2"] = desc(w2)
    except BaseException as ex:  # noqa: BLE001
        ev[prefix + "rr_raised"] = type(ex).__name__
    try:
        p = lg.parse_literal(n, raw)
        if p is not None:
            ev[prefix + "p_some"] = True
            ev[prefix + "parsed"] = desc(p)
    except BaseException as ex:  # noqa: BLE001
        ev[prefix + "p_raised"] = type(ex).__name__
    return w


def _blank(prefix: str = "") -> dict:
    return {prefix + "raised": "", prefix + "compiles": False, prefix + "evalok": False,
            prefix + "back": NONE_NODE, prefix + "rr_ok": False, prefix + "rr_raised": "",
            prefix + "back2": NONE_NODE, prefix + "p_some": False, prefix + "p_raised": "",
            prefix + "parsed": NONE_NODE, prefix + "code": ""}


SCALARS = ("int", "float", "complex", "str", "bytes")


def draw(case: dict, seed: int, chain: int = 3) -> dict:
    """One seeded draw: generate_literal(req) followed by a chain of mutate_literal calls.
    Returns a trace {"ev": [gen event, mut event, ...]}."""
    from pynguin.testcase import literalgen as lg  # noqa: PLC0415
    from pynguin.utils import randomness  # noqa: PLC0415
    flags, req, i = case["flags"], case["req"], case["i"]
    raw = PY_TYPE[req]
    _configure(flags)
    randomness.RNG.seed(hash_seed(seed, case))
    prov = LoggingProvider(SEED_POOL if flags["seeding"] == "always" else [])
    pool = tuple(cst.Name(v) for v in POOL_VARS) if flags["pool"] == "refs" else ()
    events = []
    start = case["start"] if case.get("start") and case["start"]["k"] != "-" else NONE_NODE
    origin = lit_label(case) if case["op"] == "parse" else ""
    if case["op"] == "parse":
        # the chain starts from a literal given as source text (parse-only input)
        pe, n = parse_input(case)
        events.append(dict(pe, i=i))
        return {"ev": events + _mutations(n, raw, prov, pool, req, flags, i, start, origin, chain)}
    ev = {"op": "gen", "req": req, "flags": flags, "i": i, "start": NONE_NODE, "origin": "", "seeded": False,
          "seedv": NONE_NODE, **_blank()}
    n = None
    try:
        if case.get("start") and case["start"]["k"] != "-":
            # start the chain from a rendered representative instead of a generated literal
            n = lg.literal_to_cst(build(case["start"]))
            ev["op"] = "start"
            ev["start"] = case["start"]
        else:
            n = lg.generate_literal(raw, prov, pool)
    except BaseException as ex:  # noqa: BLE001
        ev["raised"] = type(ex).__name__
    if n is not None:
        _observe_expr(ev, n, raw)
        if ev["op"] == "gen" and req in SCALARS and len(prov.log) == 1 and prov.log[0][1] is not None:
            ev["seeded"] = True
            ev["seedv"] = desc(prov.log[0][1])
    events.append(ev)
    return {"ev": events + _mutations(n, raw, prov, pool, req, flags, i, start, origin, chain)}


def _mutations(n, raw, prov, pool, req, flags, i, start, origin, chain) -> list[dict]:
    """A chain of mutate_literal calls starting from expression n (start / origin: where n came from)."""
    from pynguin.testcase import literalgen as lg  # noqa: PLC0415
    events = []
    for _ in range(chain):
        if n is None:
            break
        prov.log.clear()
        mv = {"op": "mut", "req": req, "flags": flags, "i": i, "start": start, "origin": origin, "seeded": False,
              "seedv": NONE_NODE, **_blank()}
        try:
            n2 = lg.mutate_literal(n, raw, prov, pool)
        except BaseException as ex:  # noqa: BLE001
            mv["raised"] = type(ex).__name__
            events.append(mv)
            break
        _observe_expr(mv, n2, raw)
        events.append(mv)
        n = n2
    return events


def hash_seed(seed: int, case: dict) -> int:
    import hashlib  # noqa: PLC0415
    h = hashlib.sha256(f"{seed}/{_key(case)}".encode()).hexdigest()
    return int(h[:12], 16)


def mapping_table() -> dict[str, str]:
    """map_abstract_collection on the types callers pass (evidence only)."""
    import collections.abc as cabc  # noqa: PLC0415
    from pynguin.testcase import literalgen as lg  # noqa: PLC0415
    out = {}
    for t in [list, dict, set, frozenset, tuple, str, bytes, int, cabc.Mapping, cabc.MutableMapping, cabc.Set,
              cabc.MutableSet, cabc.Iterable, cabc.Iterator, cabc.Collection, cabc.Sequence,
              cabc.MutableSequence, cabc.Reversible, types.SimpleNamespace, None]:
        r = lg.map_abstract_collection(t)
        out[getattr(t, "__name__", str(t))] = getattr(r, "__name__", str(r))
    return out

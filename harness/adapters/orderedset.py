"""Abstract OrderedSet action -> real call on pynguin.utils.orderedset; real state -> sequence."""

from __future__ import annotations

from pynguin.utils import orderedset as osmod

TYPES = {1: int, 2: str, 3: float, 4: bytes, 5: bool}
TYPES_INV = {v: k for k, v in TYPES.items()}


def _elem(cls, x):
    return TYPES[x] if cls == "OrderedTypeSet" else x


def _unelem(cls, v):
    return TYPES_INV[v] if cls == "OrderedTypeSet" else v


def _mk(cls, seq):
    return getattr(osmod, cls)([_elem(cls, x) for x in seq])


def _proj(cls, obj):
    return [_unelem(cls, v) for v in obj]


def _arg(cls, kind, a):
    vals = [_elem(cls, x) for x in a]
    if kind == "list":
        return vals, list(a)
    if kind == "set":
        st = set(vals)
        return st, [_unelem(cls, v) for v in st]
    if kind == "same":
        return getattr(osmod, cls)(vals), list(dict.fromkeys(a))
    if kind == "iter":
        return (v for v in vals), list(a)
    raise ValueError(kind)


def _res(cls, r):
    out = {"rt": "none", "rs": [], "ri": 0, "rb": False}
    if r is None:
        return out
    if isinstance(r, bool):
        out.update(rt="bool", rb=r)
    elif isinstance(r, int) and cls != "OrderedTypeSet":
        out.update(rt="int", ri=r)
    elif isinstance(r, type):
        out.update(rt="int", ri=TYPES_INV[r])
    elif isinstance(r, int):
        out.update(rt="int", ri=r)
    else:
        out.update(rt="seq", rs=_proj(cls, r))
    return out


def replay(beh: dict) -> dict:
    """Execute one abstract history on the real class; return the recorded trace."""
    hist = beh["hist"]
    cls = hist[0]["cls"]
    obj = _mk(cls, beh["s0"])
    events = []
    for act in hist:
        op = act["op"]
        pre = _proj(cls, obj)
        arg, seen = (None, [])
        if act["kind"] != "none":
            arg, seen = _arg(cls, act["kind"], act["a"])
        x = _elem(cls, act["x"]) if act["x"] else None
        intish = False
        try:
            if op == "add":
                r = obj.add(x)
            elif op == "discard":
                r = obj.discard(x)
            elif op == "remove":
                r = obj.remove(x)
            elif op == "clear":
                r = obj.clear()
            elif op in ("update", "difference_update", "intersection_update",
                        "symmetric_difference_update", "union", "intersection", "difference",
                        "symmetric_difference", "issubset", "issuperset"):
                r = getattr(obj, op)(arg)
            elif op == "ior":
                obj |= arg
                r = None
            elif op == "or":
                r = obj | arg
            elif op == "and":
                r = obj & arg
            elif op == "xor":
                r = obj ^ arg
            elif op == "sub":
                r = obj - arg
            elif op == "eq":
                r = obj == arg
            elif op == "iter":
                r = list(iter(obj))
            elif op == "reversed":
                r = list(reversed(obj))
            elif op == "copy":
                import copy
                r = copy.copy(obj)
            elif op == "contains":
                r = x in obj
            elif op == "len":
                r = len(obj)
                intish = True
            elif op == "getitem":
                r = obj[act["i"]]
            elif op == "index":
                r = obj.index(x)
                intish = True
            elif op == "count":
                r = obj.count(x)
                intish = True
            else:
                raise ValueError(op)
            if intish:
                res = {"rt": "int", "rs": [], "ri": int(r), "rb": False}
            elif op == "getitem":
                res = {"rt": "int", "rs": [], "ri": _unelem(cls, r), "rb": False}
            else:
                res = _res(cls, r)
        except (IndexError, KeyError, ValueError, TypeError, AttributeError, NotImplementedError) as ex:
            res = {"rt": type(ex).__name__, "rs": [], "ri": 0, "rb": False}
        post = _proj(cls, obj)
        events.append({"cls": cls, "op": op, "kind": act["kind"], "x": act["x"], "i": act["i"],
                       "a": seen, "pre": pre, "post": post, **res})
    return {"ev": events}

"""C05 adapter: statements whose traced code raises (and is caught) on the real executor."""

from __future__ import annotations

import sys
from pathlib import Path

PRELUDE = '''
from decimal import Decimal


class BoolRaises:
    def __bool__(self):
        raise ValueError("bool")


class LenRaises:
    def __len__(self):
        raise ValueError("len")


class ContainsRaises:
    def __contains__(self, x):
        raise KeyError("contains")


class EqRaises:
    __hash__ = object.__hash__

    def __eq__(self, o):
        raise ValueError("eq")


class Plain:
    pass

'''

# kind -> (condition source evaluated in `if <cond>:`, exception caught, raises?)
KINDS = {
    "none": ("1 < 2", "TypeError", False),
    "cmp_incomparable": ("1 < 'a'", "TypeError", True),
    "bool_raises": ("BoolRaises()", "ValueError", True),
    "len_raises": ("LenRaises()", "ValueError", True),
    "contains_raises": ("1 in ContainsRaises()", "KeyError", True),
    "eq_raises": ("EqRaises() == 1", "ValueError", True),
    "attr_error": ("Plain().missing", "AttributeError", True),
    "user_raise": ("_boom()", "RuntimeError", True),
    "nomatch_handler": ("1 < 'a'", "TypeError", True),
    "in_noniterable": ("1 in 5", "TypeError", True),
    # these do not raise in Python; the tracer must not raise either
    "lt_nan": ("float('nan') < 1.0", "TypeError", False),
    "eq_decimal_float": ("Decimal('1.5') == 1.0", "TypeError", False),
    "cmp_huge": ("10 ** 400 < 1.0", "TypeError", False),
}


def render(prog: list[dict]) -> tuple[str, dict]:
    src = PRELUDE.splitlines()
    src += ["def _boom():", "    raise RuntimeError('boom')", ""]
    info = {}
    for i, st in enumerate(prog, start=1):
        cond, exc, raises = KINDS[st["k"]]
        body = [f"def s{i}():", "    x = 0"]
        ind = "    "
        if st["caught"]:
            body.append("    try:")
            ind = "        "
        body.append(f"{ind}if {cond}:")
        body.append(f"{ind}    x = 1")
        if st["caught"]:
            if st["k"] == "nomatch_handler":
                body.append("    except KeyError:")
                body.append("        x = 3")
            body.append(f"    except {exc}:")
            body.append("        x = 2")
        start_after = len(src) + len(body) + 1
        body += ["    y = x + 1", "    if y > 0:", "        y = y + 5", "    return y", ""]
        info[i] = {"after_lines": [start_after, start_after + 1, start_after + 2, start_after + 3],
                   "after_pred_lines": [start_after + 1],
                   "raises": raises}
        src += body
    return "\n".join(src) + "\n", info


def run_program(args) -> dict:
    beh, workdir, uid = args
    from harness.adapters import pyn  # noqa: PLC0415

    prog = beh["prog"]
    mod = f"vprog_{uid}"
    Path(workdir).mkdir(parents=True, exist_ok=True)
    src, info = render(prog)
    (Path(workdir) / f"{mod}.py").write_text(src)
    sp, _module = pyn.load_sut(mod, workdir)
    executor = pyn.make_executor(sp, 5)
    test = pyn.make_test([f"var_{i} = s{i}()" for i in range(1, len(prog) + 1)])
    tracer = sp.instrumentation_tracer
    flags: list[tuple[str, bool]] = []
    ob, oa = executor._before_statement_execution, executor._after_statement_execution

    def before(statement, namespace):
        flags.append(("start", not tracer.is_disabled()))
        return ob(statement, namespace)

    def after(statement, namespace, exception):
        r = oa(statement, namespace, exception)
        flags.append(("end", not tracer.is_disabled()))
        return r

    executor._before_statement_execution = before
    executor._after_statement_execution = after
    res = executor.execute(test)
    proj = pyn.result_projection(sp, res)
    starts = [f for k, f in flags if k == "start"]
    ends = [f for k, f in flags if k == "end"]
    evs = []
    reported = {int(k) for k in proj["exceptions"]}
    for i, st in enumerate(prog, start=1):
        executed = i <= len(starts)
        escapes = info[i]["raises"] and not st["caught"]
        evs.append({
            "k": st["k"], "caught": bool(st["caught"]), "executed": bool(executed),
            "escapes": bool(escapes),
            "en_start": bool(starts[i - 1]) if executed else True,
            "en_end": bool(ends[i - 1]) if i <= len(ends) else (False if executed else True),
            "after_lines": [] if (escapes or not executed) else info[i]["after_lines"],
            "after_pred_lines": [] if (escapes or not executed) else info[i]["after_pred_lines"],
            "covered": proj["lines"], "covered_pred_lines": proj["pred_lines"],
            "exc_reported": (i - 1) in reported, "timeout": proj["timeout"],
            "exc_type": proj["exceptions"].get(str(i - 1), ""),
        })
    sys.modules.pop(mod, None)
    try:
        (Path(workdir) / f"{mod}.py").unlink()
    except OSError:
        pass
    return {"ev": evs}

"""Helpers shared by adapters that need an instrumented module and a real executor."""

from __future__ import annotations

import importlib
import re
import sys
from pathlib import Path

import libcst as cst

import pynguin.configuration as config
import pynguin.testcase.testcase as tc
from pynguin.instrumentation.machinery import install_import_hook
from pynguin.instrumentation.tracer import SubjectProperties
from pynguin.testcase.execution import TestCaseExecutor


def load_sut(module_name: str, src_dir: str | Path, metrics=("BRANCH", "LINE"), to_cover=None):
    """Import *module_name* from *src_dir* through Pynguin's real import hook.

    Returns (subject_properties, module).  The import trace is stored like generator._load_sut.
    """
    src_dir = str(src_dir)
    if src_dir not in sys.path:
        sys.path.insert(0, src_dir)
    config.configuration.module_name = module_name
    config.configuration.project_path = src_dir
    config.configuration.statistics_output.coverage_metrics = [config.CoverageMetric[m] for m in metrics]
    sp = SubjectProperties()
    sys.modules.pop(module_name, None)
    importlib.invalidate_caches()
    tcfg = to_cover if to_cover is not None else config.ToCoverConfiguration()
    with install_import_hook(module_name, sp, to_cover_config=tcfg):
        with sp.instrumentation_tracer:
            module = importlib.import_module(module_name)
        sp.instrumentation_tracer.store_import_trace()
    return sp, module


def make_executor(sp, timeout: float = 0.3) -> TestCaseExecutor:
    return TestCaseExecutor(sp, maximum_test_execution_timeout=timeout,
                            test_execution_time_per_statement=timeout)


_ASSIGN = re.compile(r"^(var_\d+)\s*=")


def make_test(stmts: list[str]) -> tc.TestCase:
    t = tc.TestCase()
    for s in stmts:
        m = _ASSIGN.match(s)
        t.add_statement(tc.Statement(node=cst.parse_statement(s),
                                     bound_variable=m.group(1) if m else None,
                                     bound_type=int if m else None))
    return t


def result_projection(sp, result) -> dict:
    """Observable content of an ExecutionResult: timeout, covered source lines, predicate outcomes
    (as (line of predicate, outcome) pairs), entered code objects, exceptions by position."""
    tr = result.execution_trace
    lines = sorted(sp.lineids_to_linenos(tr.covered_line_ids)) if tr.covered_line_ids else []
    preds_t = sorted(p for p, d in tr.true_distances.items() if d == 0.0)
    preds_f = sorted(p for p, d in tr.false_distances.items() if d == 0.0)
    pl = {p: sp.existing_predicates[p].line_no for p in set(tr.executed_predicates)}
    return {
        "timeout": bool(result.timeout),
        "lines": lines,
        "pred_lines": sorted({pl[p] for p in pl}),
        "pred_true": [[pl.get(p, -1), p] for p in preds_t],
        "pred_false": [[pl.get(p, -1), p] for p in preds_f],
        "code_objects": sorted(tr.executed_code_objects),
        "exceptions": {str(k): type(v).__name__ for k, v in result.exceptions.items()},
    }

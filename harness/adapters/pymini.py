"""PyMini adapter (C01c, C02, C03, C08): render a program of spec/PyMini.tla to Python, run it
uninstrumented under sys.monitoring (interpreter-level ground truth), run it instrumented through
Pynguin's real import hook, and project what each reports."""

from __future__ import annotations

import dis
import importlib
import sys
from pathlib import Path

SUT_DIR = Path(__file__).resolve().parent.parent / "sut"
COND_FORMS = ["pm_rt.nx(d)", "pm_rt.nx(d) == 1", "pm_rt.nn(d) is not None", "not pm_rt.nx(d) is False",
              "pm_rt.nx(d) is True", "pm_rt.nn(d) != None"]


def render(prog: list, excl: dict | None = None) -> tuple[str, dict, dict]:
    """-> (source, line_of: path tuple -> line number, meta). `excl` maps a path tuple to a
    trailing comment (exclusion markers for C08)."""
    excl = excl or {}
    lines = ["import pm_rt", "", "", "def f(d, m):"]
    line_of: dict[tuple, int] = {}
    marks: dict[tuple, int] = {}
    form = [0]

    def emit(text: str, ind: int, path: tuple | None) -> None:
        lines.append("    " * ind + text + (("  " + excl[path]) if path in excl else ""))
        if path is not None:
            line_of[path] = len(lines)

    def cond() -> str:
        c = COND_FORMS[form[0] % len(COND_FORMS)]
        form[0] += 1
        return c

    def block(blk: list, p: tuple, tag: int, ind: int) -> None:
        for i, s in enumerate(blk, start=1):
            stmt(s, p + (tag, i), ind)

    def stmt(s: dict, p: tuple, ind: int) -> None:
        t = s["t"]
        if t == "mark":
            marks[p] = len(marks) + 1
            emit(f"m.append({marks[p]})", ind, p)
        elif t == "ret":
            emit("return -1", ind, p)
        elif t == "break":
            emit("break", ind, p)
        elif t == "cont":
            emit("continue", ind, p)
        elif t == "raise":
            emit(f"raise pm_rt.E{s['e']}()", ind, p)
        elif t == "if":
            emit(f"if {cond()}:", ind, p)
            block(s["a"], p, 1, ind + 1)
            if s["b"]:
                emit("else:", ind, None)
                block(s["b"], p, 2, ind + 1)
        elif t == "while":
            emit(f"while {cond()}:", ind, p)
            block(s["a"], p, 1, ind + 1)
            if s["e"]:
                emit("else:", ind, None)
                block(s["e"], p, 2, ind + 1)
        elif t == "for":
            emit(f"for _i in range({s['k']}):", ind, p)
            block(s["a"], p, 1, ind + 1)
            if s["e"]:
                emit("else:", ind, None)
                block(s["e"], p, 2, ind + 1)
        elif t == "try":
            emit("try:", ind, p)
            block(s["a"], p, 1, ind + 1)
            if s["x"]:
                cls = {1: "pm_rt.E1", 2: "pm_rt.E2", 9: "Exception"}[s["x"]]
                emit(f"except {cls}:", ind, p + (3, 0))
                block(s["h"], p, 3, ind + 1)
            if s.get("o"):
                emit("else:", ind, None)
                block(s["o"], p, 5, ind + 1)
            if s["f"]:
                emit("finally:", ind, None)
                block(s["f"], p, 4, ind + 1)
        else:
            raise ValueError(t)

    block(prog, (), 0, 1)
    endp = (0, len(prog) + 1)
    emit("return len(m)", 1, endp)
    return "\n".join(lines) + "\n", line_of, {"marks": marks, "def_line": 4}


def _truthy_of(opname: str, taken: bool) -> bool | None:
    if opname in ("POP_JUMP_IF_FALSE",):
        return not taken
    if opname in ("POP_JUMP_IF_TRUE",):
        return taken
    if opname == "POP_JUMP_IF_NONE":
        return taken          # Pynguin's predicate: `value is None`
    if opname == "POP_JUMP_IF_NOT_NONE":
        return taken          # Pynguin's predicate: `value is not None`
    if opname == "FOR_ITER":
        return not taken      # fall through = another iteration
    return None


def _reachable(code, instrs: dict) -> set[int]:
    """Offsets reachable from the entry along normal control flow and exception-table edges."""
    offsets = sorted(instrs)
    nxt = {off: (offsets[i + 1] if i + 1 < len(offsets) else None) for i, off in enumerate(offsets)}
    table = dis._parse_exception_table(code)  # noqa: SLF001
    no_fall = {"RETURN_VALUE", "RETURN_CONST", "RAISE_VARARGS", "RERAISE", "JUMP_FORWARD", "JUMP_BACKWARD",
               "JUMP_BACKWARD_NO_INTERRUPT"}
    seen: set[int] = set()
    work = [offsets[0]]
    while work:
        off = work.pop()
        if off is None or off in seen or off not in instrs:
            continue
        seen.add(off)
        ins = instrs[off]
        succ = []
        if ins.opname not in no_fall:
            succ.append(nxt[off])
        if isinstance(ins.argval, int) and ("JUMP" in ins.opname or ins.opname in ("FOR_ITER", "SEND")):
            succ.append(ins.argval)
            if ins.opname == "FOR_ITER":
                succ.append(nxt.get(ins.argval))  # exhaustion skips END_FOR
        for e in table:
            if e.start <= off < e.end and ins.opname not in ("RETURN_CONST", "NOP", "RESUME", "POP_TOP", "LOAD_CONST",
                                                             "LOAD_FAST", "STORE_FAST", "COPY", "SWAP", "PUSH_NULL"):
                succ.append(e.target)
        work.extend(succ)
    return seen


def ground_truth(mod_name: str, src_dir: str, dvec: list) -> dict:
    """Run the UNINSTRUMENTED module under sys.monitoring: executed lines and, per line, the
    truth values taken at conditional jumps / FOR_ITER of f's code object."""
    if src_dir not in sys.path:
        sys.path.insert(0, src_dir)
    sys.modules.pop(mod_name, None)
    importlib.invalidate_caches()
    mod = importlib.import_module(mod_name)
    code = mod.f.__code__
    instrs = {i.offset: i for i in dis.get_instructions(code)}
    live = _reachable(code, instrs)
    # conditional jumps / FOR_ITER that the interpreter can reach (an `except` clause whose try body
    # cannot raise, e.g. `try: return -1`, is dead code and never gets a BRANCH event)
    jumps = {off: i for off, i in instrs.items()
             if (i.opname.startswith("POP_JUMP_IF") or i.opname == "FOR_ITER") and off in live}
    mon = sys.monitoring
    tool = 3
    try:
        mon.use_tool_id(tool, "verif-pymini")
    except ValueError:
        pass
    lines: set[int] = set()
    branches: dict[int, set[bool]] = {}

    def on_line(c, line):
        if c is code:
            lines.add(line)

    offsets = sorted(instrs)
    nxt = {off: (offsets[i + 1] if i + 1 < len(offsets) else None) for i, off in enumerate(offsets)}

    def on_branch(c, src, dst):
        if c is code and src in jumps:
            # taken = the destination is not the fall-through instruction (FOR_ITER on exhaustion jumps
            # past END_FOR, so comparing with the jump target would be wrong)
            branches.setdefault(src, set()).add(bool(dst != nxt[src]))

    mon.register_callback(tool, mon.events.LINE, on_line)
    mon.register_callback(tool, mon.events.BRANCH, on_branch)
    mon.set_local_events(tool, code, mon.events.LINE | mon.events.BRANCH)
    m: list = []
    res = {"ret": None, "exc": ""}
    try:
        res["ret"] = mod.f({"v": list(dvec), "k": 0}, m)
    except BaseException as ex:  # noqa: BLE001
        res["exc"] = type(ex).__name__
    finally:
        mon.set_local_events(tool, code, 0)
        mon.register_callback(tool, mon.events.LINE, None)
        mon.register_callback(tool, mon.events.BRANCH, None)
        mon.free_tool_id(tool)
    per_line: dict[int, set[bool]] = {}
    njumps: dict[int, int] = {}
    for off, ins in jumps.items():
        ln = ins.positions.lineno if ins.positions else None
        njumps[ln] = njumps.get(ln, 0) + 1
        for taken in branches.get(off, ()):
            tv = _truthy_of(ins.opname, taken)
            if tv is not None:
                per_line.setdefault(ln, set()).add(tv)
    sys.modules.pop(mod_name, None)
    return {"lines": sorted(lines), "outcomes": {ln: sorted(v) for ln, v in per_line.items()},
            "njumps": njumps, "marks": m, **res,
            "code_lines": sorted({ln for _, _, ln in code.co_lines() if ln is not None})}


def instrumented(mod_name: str, src_dir: str, dvec: list, metrics=("BRANCH", "LINE"), to_cover=None) -> dict:
    """Import through Pynguin's real hook, call f on the calling thread with the tracer entered."""
    from harness.adapters import pyn  # noqa: PLC0415

    sp, mod = pyn.load_sut(mod_name, src_dir, metrics=metrics, to_cover=to_cover)
    tracer = sp.instrumentation_tracer
    m: list = []
    res = {"ret": None, "exc": ""}
    with tracer:
        tracer.init_trace()
        import_lines = set(sp.lineids_to_linenos(tracer.import_trace.covered_line_ids))
        try:
            res["ret"] = mod.f({"v": list(dvec), "k": 0}, m)
        except BaseException as ex:  # noqa: BLE001
            res["exc"] = type(ex).__name__
        trace = tracer.get_trace()
    f_code_ids = [cid for cid, meta in sp.existing_code_objects.items() if meta.code_object.co_name == "f"]
    lines = sorted(sp.lineids_to_linenos(trace.covered_line_ids))
    pred_line = {p: meta.line_no for p, meta in sp.existing_predicates.items()}
    outcomes: dict[int, set[bool]] = {}
    for p, dist in trace.true_distances.items():
        if dist == 0.0:
            outcomes.setdefault(pred_line[p], set()).add(True)
    for p, dist in trace.false_distances.items():
        if dist == 0.0:
            outcomes.setdefault(pred_line[p], set()).add(False)
    npreds: dict[int, int] = {}
    for p, meta in sp.existing_predicates.items():
        if meta.code_object_id in f_code_ids:
            npreds[meta.line_no] = npreds.get(meta.line_no, 0) + 1
    line_goals = sorted({meta.line_number for meta in sp.existing_lines.values()})
    sys.modules.pop(mod_name, None)
    return {"lines": lines, "import_lines": sorted(import_lines),
            "outcomes": {ln: sorted(v) for ln, v in outcomes.items()}, "npreds": npreds,
            "line_goals": line_goals, "marks": m, "entered": sorted(trace.executed_code_objects),
            "f_code_ids": f_code_ids, "n_code_objects": len(sp.existing_code_objects), **res}


def run_case(args) -> dict:
    case, workdir, uid = args[:3]
    metrics = args[3] if len(args) > 3 else ("BRANCH", "LINE")
    prog, dvec, exp = case["prog"], case["dvec"], case["exp"]
    src, line_of, meta = render(prog)
    wd = Path(workdir)
    wd.mkdir(parents=True, exist_ok=True)
    if str(SUT_DIR) not in sys.path:
        sys.path.insert(0, str(SUT_DIR))
    mod = f"vpm_{uid}"
    (wd / f"{mod}.py").write_text(src)
    gt = ground_truth(mod, str(wd), dvec)
    err = ""
    try:
        ins = instrumented(mod, str(wd), dvec, metrics=metrics)
    except BaseException as ex:  # noqa: BLE001
        ins = None
        err = f"{type(ex).__name__}: {ex}"
    (wd / f"{mod}.py").unlink(missing_ok=True)
    body_lines = set(line_of.values())
    # the spec's prediction translated to lines
    spec_lines = sorted(line_of[tuple(p)] for p in exp["lines"])
    spec_out: dict[int, set[bool]] = {}
    for dcs in exp["decs"]:
        spec_out.setdefault(line_of[tuple(dcs["p"])], set()).add(bool(dcs["d"]))
    spec_marks = [meta["marks"][tuple(p)] for p in exp["marks"]]
    spec_exc = {"r": "", "x1": "E1", "x2": "E2"}[exp["flow"]]

    def olist(o: dict) -> list:
        return sorted([int(ln), [bool(x) for x in v]] for ln, v in o.items() if int(ln) in body_lines)

    ev = {
        "ok": ins is not None, "error": err,
        "body_lines": sorted(body_lines),
        # interpreter ground truth (uninstrumented, sys.monitoring)
        "gt_lines": sorted(set(gt["lines"]) & body_lines), "gt_out": olist(gt["outcomes"]),
        "gt_njumps": sorted([int(k), v] for k, v in gt["njumps"].items() if k in body_lines),
        "gt_marks": gt["marks"], "gt_exc": gt["exc"], "gt_ret": gt["ret"] if gt["ret"] is not None else -99,
        # the PyMini semantics' prediction
        "spec_lines": spec_lines, "spec_out": olist(spec_out), "spec_marks": spec_marks, "spec_exc": spec_exc,
    }
    if ins is not None:
        ev.update({
            "py_lines": sorted(set(ins["lines"]) & body_lines),
            "py_foreign_lines": sorted(set(ins["lines"]) - body_lines - set(ins["import_lines"]) - {meta["def_line"]}),
            "py_out": olist(ins["outcomes"]),
            "py_npreds": sorted([int(k), v] for k, v in ins["npreds"].items()),
            "py_line_goals": sorted(set(ins["line_goals"]) & body_lines),
            "py_marks": ins["marks"], "py_exc": ins["exc"], "py_ret": ins["ret"] if ins["ret"] is not None else -99,
            "py_entered": bool(set(ins["f_code_ids"]) & set(ins["entered"])),
            "gt_code_lines": sorted(set(gt["code_lines"]) & body_lines),
        })
    else:
        ev.update({"py_lines": [], "py_foreign_lines": [], "py_out": [], "py_npreds": [], "py_line_goals": [],
                   "py_marks": [], "py_exc": "", "py_ret": -99, "py_entered": False,
                   "gt_code_lines": sorted(set(gt["code_lines"]) & body_lines)})
    return ev

"""Pipeline replay (C19, C22): TLC-enumerated test cases over harness/sut/pp_sut.py run through the
real regression assertion generation, the real `generator._minimize` (every strategy and direction)
and the real export; observed: which oracles survive, coverage before/after, statements kept."""

from __future__ import annotations

import importlib
import logging
import sys
import types
from pathlib import Path

SUT_DIR = str(Path(__file__).resolve().parent.parent / "sut")
MOD = "pp_sut"
CONFIGS = [("CASE", "FORWARD"), ("CASE", "BACKWARD"), ("SUITE", "FORWARD"), ("SUITE", "BACKWARD"),
           ("COMBINED", "FORWARD"), ("NONE", "FORWARD")]

_STATE: dict = {}


def _setup():
    if _STATE:
        return _STATE
    logging.disable(logging.CRITICAL)
    import pynguin.configuration as config  # noqa: PLC0415
    from pynguin.testcase.execution import TestCaseExecutor  # noqa: PLC0415
    from pynguin.utils.naming import get_module_alias  # noqa: PLC0415

    from harness.adapters import pyn  # noqa: PLC0415

    sp, module = pyn.load_sut(MOD, SUT_DIR, metrics=("BRANCH", "LINE"))
    config.configuration.test_case_output.post_process = True
    _STATE.update(sp=sp, module=module, alias=get_module_alias(MOD), executor=TestCaseExecutor(sp), config=config)
    return _STATE


def _stmt(code: str, bound: str, typ):
    import libcst as cst  # noqa: PLC0415

    import pynguin.testcase.testcase as tc  # noqa: PLC0415

    return tc.Statement(node=cst.parse_module(code + "\n").body[0], bound_variable=bound, bound_type=typ)


def build_test(prog: list[dict], base: int = 0):
    import pynguin.testcase.testcase as tc  # noqa: PLC0415

    st = _setup()
    t = tc.TestCase()
    for i, s in enumerate(prog, start=1):
        v = f"var_{base + i - 1}"
        k = s["k"]
        if k == "ctor":
            t.add_statement(_stmt(f"{v} = {st['alias']}.Switch()", v, st["module"].Switch))
        elif k == "int":
            t.add_statement(_stmt(f"{v} = {2 + i}", v, int))
        elif k == "add":
            t.add_statement(_stmt(f"{v} = var_{base + s['o'] - 1}.add(var_{base + s['a'] - 1})", v, int))
        elif k == "total":
            t.add_statement(_stmt(f"{v} = var_{base + s['o'] - 1}.total", v, int))
        elif k == "mark":
            t.add_statement(_stmt(f"{v} = var_{base + s['o'] - 1}.mark()", v, st["module"].Switch.Mark))
        elif k == "mode":
            t.add_statement(_stmt(f"{v} = {st['alias']}.mode_of(var_{base + s['o'] - 1})", v, st["module"].Mode))
        else:
            t.add_statement(_stmt(f"{v} = var_{base + s['o'] - 1}.{k}()", v, str if k == "get" else type(None)))
    return t


def _code(node) -> str:
    import libcst as cst  # noqa: PLC0415

    return cst.Module(body=[node]).code.strip()


def snapshot(test_case) -> list[dict]:
    from pynguin.assertion.assertion import ExceptionAssertion  # noqa: PLC0415
    from pynguin.assertion.assertion_to_ast import assertion_to_cst  # noqa: PLC0415

    out = []
    for statement in test_case.statements():
        lines, sources = [], []
        for a in statement.assertions:
            if isinstance(a, ExceptionAssertion):
                continue
            node = assertion_to_cst(a)
            if node is not None:
                lines.append(_code(node))
            src = getattr(a, "source", None)
            if isinstance(src, str):
                sources.append(src.split(".", 1)[0].split("[", 1)[0])
        out.append({"code": _code(statement.node), "var": statement.bound_variable, "asserts": lines,
                    "sources": sorted(set(sources))})
    return out


def _rhs(code: str) -> str:
    head, sep, tail = code.partition(" = ")
    return tail if sep and head.isidentifier() else code


def _functions(text: str) -> list[list[str]]:
    funcs, cur = [], None
    for ln in text.splitlines():
        if ln.startswith("def test_"):
            cur = []
            funcs.append(cur)
        elif cur is not None:
            if ln and not ln.startswith((" ", "\t")):
                cur = None
            elif ln.strip():
                cur.append(ln.strip())
    return funcs


def _match(baseline: list[dict], body: list[str]) -> list[dict]:
    """Baseline statements matched IN ORDER against the lines of one exported function."""
    res, cursor = [], 0
    for st in baseline:
        accepted = {st["code"], _rhs(st["code"])}
        pos = next((i for i in range(cursor, len(body)) if body[i] in accepted), None)
        following: list[str] = []
        if pos is not None:
            cursor = pos + 1
            while cursor < len(body) and body[cursor].startswith("assert "):
                following.append(body[cursor])
                cursor += 1
        res.append({"found": pos is not None, "exported": sum(1 for a in st["asserts"] if a in following)})
    return res


def _run_exported(text: str) -> list[tuple[str, str, bool]]:
    if not text:
        return []
    lines = text.splitlines()
    marked = {ln.split("(")[0][4:]: ("xfail" in lines[i - 1]) for i, ln in enumerate(lines) if ln.startswith("def test_")}
    ns: dict = {"__name__": "exported_test"}
    try:
        exec(compile(text, "<exported>", "exec"), ns)  # noqa: S102
    except BaseException as ex:  # noqa: BLE001
        return [("<module>", f"error:{type(ex).__name__}", False)]
    out = []
    for name, is_marked in marked.items():
        fn = ns[name]
        fn = getattr(fn, "__wrapped__", fn)
        try:
            fn()
            out.append((name, "xpassed" if is_marked else "passed", is_marked))
        except BaseException as ex:  # noqa: BLE001
            out.append((name, "xfailed" if is_marked else f"failed:{type(ex).__name__}", is_marked))
    return out


def _roundtrip(text: str, workdir: str, label: str) -> list[dict]:
    import hashlib  # noqa: PLC0415

    import pynguin.ga.testcasechromosome as tcc  # noqa: PLC0415
    import pynguin.ga.testsuitechromosome as tsc  # noqa: PLC0415
    from pynguin.analyses.seeding import parse_seed_module  # noqa: PLC0415
    from pynguin.testcase.export import TestSuiteWriter  # noqa: PLC0415

    if not text:
        return []
    st = _setup()
    if "cluster" not in st:
        from pynguin.analyses.module import generate_test_cluster  # noqa: PLC0415

        st["cluster"] = generate_test_cluster(MOD)

    def h(lines) -> int:
        return int(hashlib.sha1("\n".join(lines).encode()).hexdigest()[:7], 16)

    funcs = _functions(text)
    err, again = "", []
    try:
        tests = parse_seed_module(text, st["cluster"], create_assertions=True)
        suite = tsc.TestSuiteChromosome()
        for t in tests:
            suite.add_test_case_chromosome(tcc.TestCaseChromosome(t))
        if suite.size() > 0:
            out = TestSuiteWriter().write(suite, MOD, Path(workdir) / f"rt-{label.replace('/', '-')}", project_path=SUT_DIR,
                                          format_with_black=False)
            again = _functions(out.read_text())
    except Exception as ex:  # noqa: BLE001
        err = f"{type(ex).__name__}: {ex}"[:300]
    evs = []
    for i, body in enumerate(funcs):
        re_body = again[i] if i < len(again) else []
        evs.append({"ev": "Reparse", "name": f"test_{i}", "h_exported": h(body), "h_reparsed": h(re_body) if re_body else 0,
                    "exported": body, "reparsed": re_body, "error": err})
    return evs


def run_case(args) -> dict:
    """args = (case, workdir): case = {"tests": [prog, ...]}.  Returns {"ev": [...]} with one group of
    events per minimisation configuration."""
    case, workdir = args
    st = _setup()
    config = st["config"]
    import pynguin.assertion.assertiongenerator as ag  # noqa: PLC0415
    import pynguin.ga.computations as ff  # noqa: PLC0415
    import pynguin.ga.testcasechromosome as tcc  # noqa: PLC0415
    import pynguin.ga.testsuitechromosome as tsc  # noqa: PLC0415
    from pynguin import generator  # noqa: PLC0415
    from pynguin.testcase.export import TestSuiteWriter  # noqa: PLC0415
    from pynguin.utils.orderedset import OrderedSet  # noqa: PLC0415

    sp, executor = st["sp"], st["executor"]
    tracer = sp.instrumentation_tracer
    tracer.enable()
    suite0 = tsc.TestSuiteChromosome()
    base = 0
    for prog in case["tests"]:
        suite0.add_test_case_chromosome(tcc.TestCaseChromosome(build_test(prog, base)))
        base += len(prog)
    if case.get("assertions", True):
        # filter=False: no filtering executions (a valid configuration): what the observer recorded is
        # exported as it is, nothing wrong can be dropped silently before the export
        suite0.accept(ag.AssertionGenerator(executor) if case.get("filter", True)
                      else ag.AssertionGenerator(executor, filtering_executions=0))
        # mutation-analysis based generation keeps only the assertions that kill a mutant: statements
        # lose their assertions irregularly.  mask = which statements keep theirs.
        mask = case.get("mask")
        if mask:
            for c in suite0.test_case_chromosomes:
                for i, statement in enumerate(c.test_case.statements()):
                    if (i % 2 == 0) == (mask == "even"):
                        statement.assertions.clear()
    baseline = [snapshot(c.test_case) for c in suite0.test_case_chromosomes]
    evs = []
    Path(workdir).mkdir(parents=True, exist_ok=True)
    for strategy, direction in CONFIGS:
        suite = suite0.clone()
        fitness_functions = OrderedSet([ff.TestSuiteBranchCoverageFunction(executor),
                                        ff.TestSuiteLineCoverageFunction(executor)])
        mz = config.configuration.test_case_output.minimization
        mz.test_case_minimization_strategy = config.MinimizationStrategy[strategy]
        mz.test_case_minimization_direction = config.MinimizationDirection[direction]
        tracer.enable()
        cov_before = [f.compute_coverage(suite) for f in fitness_functions]
        err = ""
        try:
            generator._minimize(suite, types.SimpleNamespace(test_suite_coverage_functions=fitness_functions))  # noqa: SLF001
        except Exception as ex:  # noqa: BLE001
            err = f"{type(ex).__name__}: {ex}"[:200]
        fresh = tsc.TestSuiteChromosome()
        for c in suite.test_case_chromosomes:
            fresh.add_test_case_chromosome(tcc.TestCaseChromosome(c.test_case.clone()))
        cov_after = [f.compute_coverage(fresh) for f in fitness_functions]
        after = [snapshot(c.test_case) for c in suite.test_case_chromosomes]
        tracer.disable()
        text = ""
        if suite.size() > 0:
            out = TestSuiteWriter().write(suite, MOD, Path(workdir) / f"o-{strategy}-{direction}", project_path=SUT_DIR,
                                          format_with_black=False, subject_properties=sp)
            text = out.read_text()
        funcs = _functions(text)
        label = f"{strategy}/{direction}"
        # C24: the exported file re-parsed by the seed parser and exported again, function by function
        if case.get("roundtrip") and strategy in ("NONE", "CASE") and direction == "FORWARD":
            evs.extend(dict(e, cfg=label) for e in _roundtrip(text, workdir, label))
        # C18: the exported functions run against the module (tracer off): all pass unless xfail-marked
        for name, outcome, marked in _run_exported(text):
            evs.append({"ev": "Test", "cfg": label, "name": name, "outcome": outcome, "xfail_marked": marked})
        # C19: every oracle after its statement in the exported function of its test
        for ti, tb in enumerate(baseline):
            best = None
            for body in funcs or [[]]:
                m = _match(tb, body)
                score = sum(int(x["found"]) + x["exported"] for x in m)
                if best is None or score > best[0]:
                    best = (score, m)
            whole_removed = best[0] == 0
            for stb, m in zip(tb, best[1]):
                if stb["asserts"]:
                    evs.append({"ev": "Asserted", "cfg": label, "test": ti, "code": stb["code"], "attached": len(stb["asserts"]),
                                "exported": m["exported"], "found": m["found"], "test_removed": whole_removed,
                                "own": stb["var"] in stb["sources"]})
        # C22
        vals = sorted(set(cov_before) | set(cov_after))
        before_codes = [_rhs(s["code"]) for t in baseline for s in t]
        pool = list(before_codes)
        new = 0
        for s in (x for t in after for x in t):
            c = _rhs(s["code"])
            if c in pool:
                pool.remove(c)
            else:
                new += 1
        asserted_vars = {(ti, v) for ti, t in enumerate(baseline) for s in t for v in s["sources"]}
        kept_vars = {s["var"] for t in after for s in t if s["var"]} | \
                    {s["code"].split(" = ")[0] for t in after for s in t if " = " in s["code"]}
        # a statement whose variable is asserted on may lose its (unused) binding but must stay
        after_rhs = [_rhs(s["code"]) for t in after for s in t]
        dropped = 0
        for ti, t in enumerate(baseline):
            for s in t:
                if (ti, s["var"]) in asserted_vars and s["var"] not in kept_vars and _rhs(s["code"]) not in after_rhs:
                    dropped += 1
        evs.append({"ev": "Minimize", "cfg": label, "cov_before": [vals.index(v) for v in cov_before],
                    "cov_after": [vals.index(v) for v in cov_after], "new_statements": new,
                    "asserted_dropped": dropped, "error": err})
    return {"ev": evs, "baseline": baseline}

"""Run ONE end-to-end Pynguin generation in-process (no master/worker) and record pipeline events.

usage: python -m harness.adapters.e2e_runner cfg.json outdir

cfg = {"module": name, "src_dir": dir, "seed": int, "algorithm": str, "iterations": int,
       "executions": int (-1), "statements": int (-1), "assertions": "NONE|SIMPLE|MUTATION_ANALYSIS|
       CHECKED_MINIMIZING", "min_strategy": str, "min_direction": str, "metrics": "BRANCH,LINE",
       "population": int, "extra": [cli args]}

Everything is observed by wrapping public functions at run time (no repository hooks).
Events are appended to <outdir>/events.ndjson, one JSON object per line, field "ev":

  LoopTest      resources_left() was consulted: result + every stopping condition's counters
  IterEnd       after_search_iteration was called
  Exec          a test case was executed during the search (count of statements)
  SearchEnd     generate_tests returned: suite snapshot
  Assertions    after assertion generation: suite snapshot with assertions (+ kill info if any)
  AssertMin     after assertion minimisation
  Minimize      before/after statement minimisation: snapshots + coverage per function (re-executed)
  Export        exported file path + text
  Report        coverage report content + tracked coverage values
  Return        return code
"""

from __future__ import annotations

import json
import os
import sys
import time
from pathlib import Path


def main() -> int:  # noqa: C901, PLR0915
    cfg = json.loads(Path(sys.argv[1]).read_text())
    out = Path(sys.argv[2])
    out.mkdir(parents=True, exist_ok=True)
    evf = out / "events.ndjson"
    evf.write_text("")

    def emit(ev: str, **kw) -> None:
        with evf.open("a") as f:
            f.write(json.dumps({"ev": ev, **kw}, default=str) + "\n")

    import pynguin.configuration as config
    import pynguin.ga.algorithms.generationalgorithm as galg
    import pynguin.generator as gen
    import pynguin.testcase.execution as execution
    import pynguin.utils.report as report
    import pynguin.utils.statistics.stats as stat
    from pynguin.utils.statistics.runtimevariable import RuntimeVariable

    state = {"in_search": False, "algorithm": None, "execs": 0}

    # ------------------------------------------------------------------ suite snapshots
    def snap_test(tcc) -> dict:
        tcase = tcc.test_case
        stmts = []
        import libcst as cst  # noqa: PLC0415

        for st in tcase.statements():
            code = cst.Module(body=[st.node]).code.strip()
            stmts.append({"code": code, "var": st.bound_variable or "",
                          "asserts": [repr(a) for a in st.assertions]})
        return {"stmts": stmts, "size": tcase.size()}

    def snap_suite(suite) -> list[dict]:
        return [snap_test(t) for t in suite.test_case_chromosomes]

    def fresh_coverages(suite, algorithm) -> dict:
        """Coverage of the suite's CURRENT tests, recomputed on a clone without caches."""
        res = {}
        if algorithm is None:
            return res
        clone = suite.clone()
        clone.invalidate_cache()
        for t in clone.test_case_chromosomes:
            t.invalidate_cache()
            t.remove_last_execution_result()
        for fn in algorithm.test_suite_coverage_functions:
            try:
                clone.add_coverage_function(fn)
            except Exception:  # noqa: BLE001
                pass
            try:
                res[type(fn).__name__] = float(clone.get_coverage_for(fn))
            except Exception as ex:  # noqa: BLE001
                res[type(fn).__name__] = f"ERR {type(ex).__name__}: {ex}"
        return res

    # ------------------------------------------------------------------ search loop (C17)
    def sc_snapshot(alg) -> list[dict]:
        res = []
        for sc in alg.stopping_conditions:
            try:
                res.append({"name": type(sc).__name__, "cur": int(sc.current_value()),
                            "lim": int(sc.limit()), "ful": bool(sc.is_fulfilled())})
            except Exception as ex:  # noqa: BLE001
                res.append({"name": type(sc).__name__, "cur": -1, "lim": -1, "ful": False, "err": str(ex)})
        return res

    orig_rl = galg.GenerationAlgorithm.resources_left

    def resources_left(self):
        r = orig_rl(self)
        if state["in_search"]:
            emit("LoopTest", result=bool(r), conds=sc_snapshot(self), execs=state["execs"], stmts=state.get("stmts", 0))
        return r

    galg.GenerationAlgorithm.resources_left = resources_left

    orig_asi = galg.GenerationAlgorithm.after_search_iteration

    def after_search_iteration(self, best):
        r = orig_asi(self, best)
        if state["in_search"]:
            emit("IterEnd", conds=sc_snapshot(self), execs=state["execs"], stmts=state.get("stmts", 0))
        return r

    galg.GenerationAlgorithm.after_search_iteration = after_search_iteration

    orig_bfsi = galg.GenerationAlgorithm.before_first_search_iteration

    def before_first_search_iteration(self, initial):
        r = orig_bfsi(self, initial)
        if state["in_search"]:
            emit("FirstIter", conds=sc_snapshot(self), execs=state["execs"], stmts=state.get("stmts", 0))
        return r

    galg.GenerationAlgorithm.before_first_search_iteration = before_first_search_iteration

    def wrap_execute(cls):
        orig = cls.execute

        def execute(self, test_case, *a, **k):
            if state["in_search"]:
                state["execs"] += 1
                emit("Exec", n=state["execs"], size=test_case.size())
            res = orig(self, test_case, *a, **k)
            if state["in_search"]:
                # statements executed since the search started, summed by the harness from the results
                # (the stopping condition's own counter is what is being checked)
                state["stmts"] = state.get("stmts", 0) + int(getattr(res, "num_executed_statements", 0) or 0)
            return res

        cls.execute = execute

    wrap_execute(execution.TestCaseExecutor)

    orig_inst = gen._instantiate_test_generation_strategy

    def inst(*a, **k):
        alg = orig_inst(*a, **k)
        state["algorithm"] = alg
        og = alg.generate_tests

        def generate_tests():
            state["in_search"] = True
            emit("SearchStart", algorithm=type(alg).__name__, conds=sc_snapshot(alg))
            try:
                res = og()
            finally:
                state["in_search"] = False
            emit("SearchEnd", conds=sc_snapshot(alg), execs=state["execs"], stmts=state.get("stmts", 0), suite=snap_suite(res))
            return res

        alg.generate_tests = generate_tests
        return alg

    gen._instantiate_test_generation_strategy = inst

    # ------------------------------------------------------------------ post-processing
    orig_ga = gen._generate_assertions

    def generate_assertions(executor, generation_result, test_cluster):
        r = orig_ga(executor, generation_result, test_cluster)
        emit("Assertions", suite=snap_suite(generation_result))
        return r

    gen._generate_assertions = generate_assertions

    orig_ma = gen._minimize_assertions

    def minimize_assertions(generation_result):
        before = snap_suite(generation_result)
        r = orig_ma(generation_result)
        emit("AssertMin", before=before, after=snap_suite(generation_result))
        return r

    gen._minimize_assertions = minimize_assertions

    orig_min = gen._minimize

    def minimize(generation_result, algorithm=None):
        before = snap_suite(generation_result)
        cov_before = fresh_coverages(generation_result, algorithm)
        err = ""
        try:
            r = orig_min(generation_result, algorithm)
        except Exception as ex:
            err = f"{type(ex).__name__}: {ex}"
            emit("Minimize", before=before, after=snap_suite(generation_result), cov_before=cov_before,
                 cov_after=fresh_coverages(generation_result, algorithm), error=err)
            raise
        emit("Minimize", before=before, after=snap_suite(generation_result), cov_before=cov_before,
             cov_after=fresh_coverages(generation_result, algorithm), error=err)
        return r

    gen._minimize = minimize

    orig_exp = gen._export_chromosome

    def export_chromosome(chromosome, *a, **k):
        before = snap_suite(chromosome)
        r = orig_exp(chromosome, *a, **k)
        module_name = config.configuration.module_name.replace(".", "_")
        path = Path(config.configuration.test_case_output.output_path).resolve() / f"test_{module_name}.py"
        text = path.read_text() if path.exists() else ""
        emit("Export", path=str(path), text=text, suite_before=before, suite_after=snap_suite(chromosome))
        return r

    gen._export_chromosome = export_chromosome

    orig_rep = gen.get_coverage_report

    def get_coverage_report(suite, subject_properties, metrics):
        rep = orig_rep(suite, subject_properties, metrics)

        def cov_entry(c):
            return None if c is None else [int(c.covered), int(c.existing)]

        lines = []
        for ln, annotation in enumerate(rep.line_annotations, start=1):
            lines.append({"line": ln, "total": cov_entry(annotation.total), "branches": cov_entry(annotation.branches),
                          "branchless": cov_entry(annotation.branchless_code_objects),
                          "lines": cov_entry(annotation.lines)})
        # the coverage the suite really has on this instrumentation, recomputed from its merged trace
        tracked = {}
        try:
            import pynguin.ga.fitness_metrics as fm  # noqa: PLC0415
            from pynguin.ga.computations import analyze_results  # noqa: PLC0415

            results = [t.get_last_execution_result() for t in suite.test_case_chromosomes]
            results = [r for r in results if r is not None]
            merged = analyze_results(results)
            tracked["branch"] = float(fm.compute_branch_coverage(merged, subject_properties))
            tracked["line"] = float(fm.compute_line_coverage(merged, subject_properties))
            tracked["covered_lines"] = sorted(subject_properties.lineids_to_linenos(merged.covered_line_ids))
            tracked["n_results"] = len(results)
            # independent counts straight from the merged trace and the registries
            preds = list(subject_properties.existing_predicates)
            bl = list(subject_properties.branch_less_code_objects)
            tracked["branch_existing"] = 2 * len(preds) + len(bl)
            tracked["branch_covered"] = (sum(1 for p in preds if merged.true_distances.get(p) == 0.0)
                                         + sum(1 for p in preds if merged.false_distances.get(p) == 0.0)
                                         + sum(1 for c in bl if c in merged.executed_code_objects))
            tracked["line_existing"] = len(subject_properties.existing_lines)
            tracked["line_covered"] = len(set(merged.covered_line_ids) & set(subject_properties.existing_lines))
        except Exception as ex:  # noqa: BLE001
            tracked["error"] = f"{type(ex).__name__}: {ex}"
        emit("Report", module=rep.module, branch_coverage=rep.branch_coverage, line_coverage=rep.line_coverage,
             branches=cov_entry(rep.branches), branchless=cov_entry(rep.branchless_code_objects),
             lines=cov_entry(rep.lines), annotations=lines, metrics=[str(m) for m in metrics], tracked=tracked)
        return rep

    gen.get_coverage_report = get_coverage_report

    tracked_vars: dict[str, object] = {}
    orig_tov = stat.track_output_variable

    def track_output_variable(variable, value):
        try:
            name = variable.name
            if "Coverage" in name and isinstance(value, (int, float)):
                tracked_vars[name] = float(value)
        except Exception:  # noqa: BLE001
            pass
        return orig_tov(variable, value)

    stat.track_output_variable = track_output_variable
    gen.stat.track_output_variable = track_output_variable

    # ------------------------------------------------------------------ run
    from pynguin import cli  # noqa: PLC0415

    argv = ["pynguin", "--project-path", cfg["src_dir"], "--module-name", cfg["module"],
            "--output-path", str(out / "tests"), "--report-dir", str(out / "report"),
            "--seed", str(cfg.get("seed", 1)), "--no-rich", "--use_master_worker", "False",
            "--algorithm", cfg.get("algorithm", "DYNAMOSA"),
            "--maximum-search-time", "-1",
            "--maximum-iterations", str(cfg.get("iterations", 5)),
            "--maximum-test-executions", str(cfg.get("executions", -1)),
            "--maximum-statement-executions", str(cfg.get("statements", -1)),
            "--assertion-generation", cfg.get("assertions", "SIMPLE"),
            "--population", str(cfg.get("population", 6)),
            "--create-coverage-report", "True",
            "--coverage-metrics", *cfg.get("metrics", "BRANCH").split(","),
            "--test-case-minimization-strategy", cfg.get("min_strategy", "CASE"),
            "--test-case-minimization-direction", cfg.get("min_direction", "BACKWARD"),
            "--statistics-backend", "NONE"]
    argv += cfg.get("extra", [])
    t0 = time.time()
    emit("CmdStart", argv=argv, hashseed=os.environ.get("PYTHONHASHSEED", ""))
    try:
        rc = cli.main(argv)
    except SystemExit as ex:
        rc = int(ex.code or 0) + 1000
    emit("Stats", tracked=tracked_vars)
    emit("Return", rc=int(rc), wall_s=round(time.time() - t0, 2))
    return 0


if __name__ == "__main__":
    sys.exit(main())

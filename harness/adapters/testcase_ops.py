"""C15 adapter: abstract TestCase actions -> real pynguin calls; real test cases -> abstract
projection (spec/TestCaseOps.tla: sequence of [bv, uses, ty] + registry + counter).

The projection is INDEPENDENT of the private fields the property is about: bound names and names
read come from Python's `ast` applied to the rendered source of every statement, validity from
`compile()` of `to_code()`.  Only the clause RegistryMatches reads the private type registry
(through `variables_of_type`) and Statement.bound_type (the only place a type is recorded).

Two drivers:
* P2  `replay_api(beh)`      TLC-generated API behaviours on real `tc.TestCase` objects whose
                             statements call the tiny SUT harness.sut.c15_tiny.
* P1  `run_history(spec)`    long random histories driven by the REAL TestFactory,
                             TestCaseChromosome.mutate (TestCaseMutation), SinglePointRelativeCrossOver,
                             TestCaseLocalSearch (+ the statement strategies), RandomLengthTestCaseFactory,
                             chop / remove_unused_variables / remove_statement_with_forward_dependencies /
                             append_test_case(_from) / clone, on clusters built by generate_test_cluster.
Stubs in P1: the local-search objective (verdicts drawn from the history's RNG; it is the place
where the real one would execute the test, so it also records a probe event), the local-search
timer (call budget), ExecutionResult objects with a reported exception position.
Nothing here decides a property: events only carry what was observed.
"""

from __future__ import annotations

import ast
import builtins
import importlib
import random
import re
import sys
from pathlib import Path

import libcst as cst

import pynguin.configuration as config
import pynguin.ga.testcasechromosome as tcc
import pynguin.ga.testcasefactory as tcf
import pynguin.ga.testsuitechromosome as tsc
import pynguin.testcase.testcase as tc
import pynguin.testcase.testfactory as tf
import pynguin.utils.generic.genericaccessibleobject as gao
from pynguin.analyses.module import generate_test_cluster
from pynguin.ga.operators.crossover import SinglePointRelativeCrossOver
from pynguin.testcase.execution_result import ExecutionResult
from pynguin.testcase.localsearch import TestCaseLocalSearch
from pynguin.testcase.localsearchobjective import LocalSearchImprovement
from pynguin.utils import randomness
from pynguin.utils.naming import get_module_alias

SUT_DIR = Path(__file__).resolve().parent.parent / "sut"
STATIC_SUTS = ["harness.sut.c15_shapes", "harness.sut.c15_store"]
TINY = "harness.sut.c15_tiny"

NOVAR = -1
_VAR = re.compile(r"var_(0|[1-9]\d{0,5})\Z")
_BUILTINS = frozenset(dir(builtins))


# --------------------------------------------------------------------------------------
# independent projection
# --------------------------------------------------------------------------------------
class Names:
    """Injective name -> int map: var_N -> N, every other identifier -> 1_000_000 + k."""

    def __init__(self) -> None:
        self.other: dict[str, int] = {}

    def id(self, name: str) -> int:
        m = _VAR.match(name)
        if m:
            return int(m.group(1))
        return self.other.setdefault(name, 1_000_000 + len(self.other))

    def text(self, i: int) -> str:
        if i < 1_000_000:
            return f"var_{i}"
        for k, v in self.other.items():
            if v == i:
                return k
        return f"?{i}"


class _Reads(ast.NodeVisitor):
    """Names loaded / stored by one statement at the scope of the test function.  Parameters of
    lambdas and comprehension targets are local to their expression and are neither."""

    def __init__(self) -> None:
        self.loads: list[str] = []
        self.stores: list[str] = []
        self._local: list[set[str]] = []

    def _is_local(self, name: str) -> bool:
        return any(name in s for s in self._local)

    def visit_Name(self, node: ast.Name) -> None:
        if self._is_local(node.id):
            return
        if isinstance(node.ctx, ast.Load):
            self.loads.append(node.id)
        else:
            self.stores.append(node.id)

    def visit_Lambda(self, node: ast.Lambda) -> None:
        a = node.args
        for d in list(a.defaults) + [d for d in a.kw_defaults if d is not None]:
            self.visit(d)
        params = {x.arg for x in a.posonlyargs + a.args + a.kwonlyargs}
        if a.vararg:
            params.add(a.vararg.arg)
        if a.kwarg:
            params.add(a.kwarg.arg)
        self._local.append(params)
        self.visit(node.body)
        self._local.pop()

    def _comp(self, node, parts) -> None:
        targets: set[str] = set()
        for g in node.generators:
            for n in ast.walk(g.target):
                if isinstance(n, ast.Name):
                    targets.add(n.id)
        # the first iterable is evaluated in the enclosing scope
        self.visit(node.generators[0].iter)
        self._local.append(targets)
        for k, g in enumerate(node.generators):
            if k:
                self.visit(g.iter)
            for c in g.ifs:
                self.visit(c)
        for p in parts:
            self.visit(p)
        self._local.pop()

    def visit_ListComp(self, node):
        self._comp(node, [node.elt])

    visit_SetComp = visit_GeneratorExp = visit_ListComp

    def visit_DictComp(self, node):
        self._comp(node, [node.key, node.value])


_STMT_CACHE: dict[tuple[str, str], tuple] = {}


def _analyse(code: str, alias: str) -> tuple:
    """(parses, bound name | None | 'multi', names read) of one rendered statement."""
    key = (code, alias)
    hit = _STMT_CACHE.get(key)
    if hit is not None:
        return hit
    try:
        tree = ast.parse(code)
    except SyntaxError:
        res = (False, None, ())
        _STMT_CACHE[key] = res
        return res
    v = _Reads()
    v.visit(tree)
    reads = tuple(dict.fromkeys(n for n in v.loads
                                if n != alias and n != "pytest" and n not in _BUILTINS))
    stores = list(dict.fromkeys(v.stores))
    bound = None if not stores else (stores[0] if len(stores) == 1 else "multi")
    res = (True, bound, reads)
    if len(_STMT_CACHE) < 200_000:
        _STMT_CACHE[key] = res
    return res


_NODE_CODE: dict[int, tuple] = {}
_EMPTY = cst.Module(body=[])


def _node_code(node) -> str:
    ent = _NODE_CODE.get(id(node))
    if ent is None or ent[0] is not node:
        if len(_NODE_CODE) > 300_000:
            _NODE_CODE.clear()
        ent = (node, _EMPTY.code_for_node(node))
        _NODE_CODE[id(node)] = ent
    return ent[1]


def type_name(t) -> str:
    if t is None:
        return ""
    mod = getattr(t, "__module__", "?")
    qn = getattr(t, "__qualname__", None) or repr(t)
    return f"{mod.rsplit('.', 1)[-1]}.{qn}"


class UnsupportedStatement(Exception):
    pass


def project(test_case: tc.TestCase, names: Names, alias: str) -> dict:
    """Abstract state of a real test case (see module docstring)."""
    whole = test_case.to_code()
    try:
        compile(whole, "<c15>", "exec")
        valid = True
    except (SyntaxError, ValueError):
        valid = False
    st = []
    parts = []
    types: dict[str, type] = {}
    for s in test_case.statements():
        code = _node_code(s.node)
        parts.append(code)
        ok, bound, reads = _analyse(code.strip("\n") + "\n", alias)
        if not ok:
            valid = False
        if bound == "multi":
            raise UnsupportedStatement(code)
        ty = type_name(s.bound_type)
        if s.bound_type is not None:
            types[ty] = s.bound_type
        st.append({"bv": NOVAR if bound is None else names.id(bound),
                   "uses": [names.id(r) for r in reads],
                   "ty": ty,
                   "sbv": NOVAR if s.bound_variable is None else names.id(s.bound_variable)})
    fresh = "".join(parts) if parts else "pass\n"
    for t in test_case._type_registry:  # noqa: SLF001  (keys only; values via the accessor)
        types.setdefault(type_name(t), t)
    reg = []
    for tn in sorted(types):
        vs = test_case.variables_of_type(types[tn])
        if vs:
            reg.append({"ty": tn, "vs": [names.id(v) for v in vs]})
    return {"st": st, "reg": reg, "ctr": test_case._var_counter,  # noqa: SLF001
            "valid": valid, "same": fresh == whole}


# --------------------------------------------------------------------------------------
# P2: TLC API behaviours on real TestCase objects
# --------------------------------------------------------------------------------------
_TINY_ENV = None


def tiny_env():
    global _TINY_ENV
    if _TINY_ENV is None:
        mod = importlib.import_module(TINY)
        _TINY_ENV = {"alias": get_module_alias(TINY), "types": {"A": mod.A, "B": mod.B, "": None}}
    return _TINY_ENV


def _real_stmt(s: dict) -> tc.Statement:
    """abstract [bv, uses, ty] -> Statement calling the tiny SUT (bv/uses are variable numbers)."""
    e = tiny_env()
    args = ", ".join(f"var_{u}" for u in sorted(s["uses"]))
    if s["bv"] == NOVAR:
        src = f"{e['alias']}.sink({args})"
        return tc.Statement(node=cst.parse_statement(src), bound_variable=None,
                            bound_type=e["types"][s["ty"]] if s["ty"] else None)
    src = f"var_{s['bv']} = {e['alias']}.mk({args})"
    return tc.Statement(node=cst.parse_statement(src), bound_variable=f"var_{s['bv']}",
                        bound_type=e["types"][s["ty"]])


def _tiny_type_name(ty: str) -> str:
    return ty


def _proj_tiny(t: tc.TestCase, names: Names) -> dict:
    p = project(t, names, tiny_env()["alias"])
    short = {"c15_tiny.A": "A", "c15_tiny.B": "B", "": ""}
    for s in p["st"]:
        s["ty"] = short.get(s["ty"], s["ty"])
    for r in p["reg"]:
        r["ty"] = short.get(r["ty"], r["ty"])
    return p


def _build(obj: dict) -> tc.TestCase:
    """A real test case with the given abstract content, built through the public API."""
    t = tc.TestCase()
    for s in obj["st"]:
        t.add_statement(_real_stmt(s))
    while t._var_counter < obj["ctr"]:  # noqa: SLF001
        t.next_var_name()
    return t


def replay_api(beh: dict) -> dict:
    """Execute one abstract API history (MC_TestCase) on real TestCase objects."""
    names = Names()
    objs = {k: _build(o) for k, o in enumerate(beh["init"], start=1)}
    events = []
    for act in beh["hist"]:
        op = act["op"]
        o = act["o"]
        t = objs[o]
        pre = _proj_tiny(t, names)
        other = _proj_tiny(objs[act["o2"]], names) if act["o2"] else {"st": [], "reg": [], "ctr": 0,
                                                                       "valid": True, "same": True}
        s = act["s"]
        if op in ("add", "insert", "replace") and s["fresh"]:
            # the caller obtains the bound name from next_var_name(), as the factory does
            nm = t.next_var_name()
            s = dict(s, bv=int(nm[4:]))
        exc = ""
        ret = []
        try:
            if op == "add":
                t.add_statement(_real_stmt(s))
            elif op == "insert":
                t.insert_statement(act["i"], _real_stmt(s))
            elif op == "remove":
                t.remove_statement(act["i"])
            elif op == "replace":
                t.replace_statement(act["i"], _real_stmt(s))
            elif op == "remove_batch":
                t.remove_statements_batch(set(act["S"]))
            elif op == "chop":
                t.chop(act["i"])
            elif op == "remove_fwd":
                ret = sorted(t.remove_statement_with_forward_dependencies(act["i"]))
            elif op == "delete_gracefully":
                tf.TestFactory.delete_statement_gracefully(t, act["i"])
            elif op == "append_from":
                randomness.RNG.seed(act["seed"])
                t.append_test_case_from(objs[act["o2"]], act["i"])
            elif op == "remove_unused":
                t.remove_unused_variables()
            elif op == "clone":
                objs[act["o2"]] = t.clone()
            elif op == "next_var":
                ret = [int(t.next_var_name()[4:])]
            else:
                raise ValueError(op)
        except (IndexError, KeyError, ValueError, AssertionError, TypeError) as ex:
            exc = type(ex).__name__
        target = objs[act["o2"]] if op == "clone" else t
        post = _proj_tiny(target, names)
        events.append({"op": op, "o": o, "o2": act["o2"], "i": act["i"], "S": sorted(act["S"]),
                       "s": {"bv": s["bv"], "uses": sorted(s["uses"]), "ty": s["ty"]},
                       "fresh": bool(act["s"]["fresh"]), "pre": pre, "other": other, "post": post,
                       "ret": ret, "exc": exc, "site": "api", "pre_n": len(pre["st"]), "L": 0})
    return {"ev": events}


# --------------------------------------------------------------------------------------
# P1: random histories with the real factory / operators
# --------------------------------------------------------------------------------------
_CLUSTERS: dict[str, tuple] = {}


def cluster_for(module_name: str, src_dir: str | None = None):
    """(cluster, alias) of a SUT module, built with the real generate_test_cluster."""
    ent = _CLUSTERS.get(module_name)
    if ent is None:
        if src_dir and src_dir not in sys.path:
            sys.path.insert(0, src_dir)
        importlib.invalidate_caches()
        config.configuration.module_name = module_name
        config.configuration.test_creation.generate_field_statements = True
        cl = generate_test_cluster(module_name)
        ent = (cl, get_module_alias(module_name))
        _CLUSTERS[module_name] = ent
    return ent


def cluster_features(cl, module_name: str) -> dict:
    """What the cluster offers for the module under test (classes, methods, fields, enums, ...)."""
    out = {"constructors": 0, "methods": 0, "functions": 0, "enums": 0, "fields": 0,
           "callable_params": 0, "collection_params": 0}
    seen = set()
    short = module_name.rsplit(".", 1)[-1]
    pool = list(cl.accessible_objects_under_test) + [g for gs in cl.generators.values() for g in gs]
    for a in pool:
        if id(a) in seen:
            continue
        seen.add(id(a))
        owner = getattr(a, "owner", None)
        if isinstance(a, gao.GenericField):
            if owner is not None and owner.module.rsplit(".", 1)[-1] == short:
                out["fields"] += 1
            continue
        if a not in cl.accessible_objects_under_test:
            continue
        if isinstance(a, gao.GenericConstructor):
            out["constructors"] += 1
        elif isinstance(a, gao.GenericMethod):
            out["methods"] += 1
        elif isinstance(a, gao.GenericFunction):
            out["functions"] += 1
        elif isinstance(a, gao.GenericEnum):
            out["enums"] += 1
        sig = getattr(a, "inferred_signature", None)
        if sig is not None:
            for pt in sig.original_parameters.values():
                txt = str(pt)
                if "Callable" in txt or "function" in txt:
                    out["callable_params"] += 1
                if any(k in txt for k in ("list", "dict", "set", "tuple", "Sequence", "Iterable", "Mapping")):
                    out["collection_params"] += 1
    return out


class Recorder:
    def __init__(self, alias: str, L: int) -> None:
        self.names = Names()
        self.alias = alias
        self.L = L
        self.events: list[dict] = []

    def emit(self, op: str, site: str, slot: int, test_case: tc.TestCase, pre_n: int,
             exc: str = "", arg: int = -1) -> None:
        p = project(test_case, self.names, self.alias)
        self.events.append({"op": op, "site": site, "o": slot, "pre_n": pre_n, "L": self.L,
                            "arg": arg, "exc": exc, "post": p})


class RecChromosome(tcc.TestCaseChromosome):
    """TestCaseChromosome that reports the sub-steps of TestCaseMutation.mutate (they are calls on
    the chromosome: _mutation_delete / _mutation_change / _mutation_insert)."""

    rec: Recorder | None = None
    slot: int = 0

    def _sub(self, name: str, site: str, fn):
        pre = self.test_case.size()
        exc = ""
        try:
            return fn()
        except Exception as ex:  # noqa: BLE001
            exc = type(ex).__name__
            raise
        finally:
            if self.rec is not None:
                self.rec.emit(name, site, self.slot, self.test_case, pre, exc)

    def _mutation_delete(self) -> bool:
        return self._sub("mutate.delete", "other", super()._mutation_delete)

    def _mutation_change(self) -> bool:
        return self._sub("mutate.change", "other", super()._mutation_change)

    def _mutation_insert(self) -> bool:
        return self._sub("mutate.insert", "mutation_insert", super()._mutation_insert)

    def clone(self) -> "RecChromosome":
        c = RecChromosome(orig=self)
        c.rec = self.rec
        c.slot = self.slot
        return c


class StubTimer:
    def __init__(self, budget: int) -> None:
        self.left = budget

    def start_timer(self) -> None:
        pass

    def limit_reached(self) -> bool:
        self.left -= 1
        return self.left < 0


class StubObjective:
    """Stands in for LocalSearchObjective (which would execute the suite): verdicts are drawn from
    the history's RNG; every call is the point where the candidate test case would be run."""

    def __init__(self, rnd: random.Random, rec: Recorder, slot: int) -> None:
        self.rnd = rnd
        self.rec = rec
        self.slot = slot
        self.calls = 0

    def has_changed(self, chromosome) -> LocalSearchImprovement:
        self.calls += 1
        chromosome.changed = True
        self.rec.emit("ls.probe", "other", self.slot, chromosome.test_case,
                      chromosome.test_case.size())
        x = self.rnd.random()
        if x < 0.3:
            return LocalSearchImprovement.IMPROVEMENT
        if x < 0.6:
            return LocalSearchImprovement.DETERIORATION
        return LocalSearchImprovement.NONE

    def has_improved(self, chromosome) -> bool:
        return self.has_changed(chromosome) == LocalSearchImprovement.IMPROVEMENT


OPS = ["insert_random", "append_accessible", "delete_gracefully", "change_call", "change_type",
       "change_field", "mutate_value", "mutate_call", "mutate", "crossover", "chop",
       "remove_unused", "remove_fwd", "clone", "append_test_case", "append_from", "local_search",
       "set_result", "random_test_case"]
_WEIGHTS = {"insert_random": 10, "append_accessible": 3, "delete_gracefully": 4, "change_call": 6,
            "change_type": 6, "change_field": 4, "mutate_value": 4, "mutate_call": 5, "mutate": 14,
            "crossover": 10, "chop": 2, "remove_unused": 2, "remove_fwd": 3, "clone": 2,
            "append_test_case": 2, "append_from": 4, "local_search": 5, "set_result": 3,
            "random_test_case": 2}

NSLOTS = 3


def configure(L: int, profile: int) -> None:
    c = config.configuration
    sa, tcr, ls = c.search_algorithm, c.test_creation, c.local_search
    sa.chromosome_length = L
    sa.chop_max_length = True
    sa.test_delete_probability = 0.34
    sa.test_change_probability = 0.5
    sa.test_insert_probability = 0.5
    sa.statement_insertion_probability = 0.5
    sa.change_statement_type_probability = 0.3 if profile else 0.05
    tcr.generate_field_statements = True
    tcr.max_attempts = 50
    tcr.max_recursion = 3 if profile else 10
    tcr.object_reuse_probability = 0.5 if profile else 0.9
    tcr.collection_size = 3
    tcr.callable_invocation_probability = 0.5 if profile else 0.25
    tcr.callable_argument_probability = 0.25
    ls.local_search_same_datatype = True
    ls.local_search_different_datatype = True
    ls.local_search_llm = False
    ls.local_search_primitives = True
    ls.local_search_collections = True
    ls.local_search_complex_objects = True
    ls.local_search_probability = 1.0
    ls.ls_string_random_mutation_count = 2
    ls.ls_random_parametrized_statement_call_count = 3
    ls.ls_max_different_type_mutations = 3
    ls.ls_dict_max_insertions = 3


def run_history(spec: dict) -> dict:
    """spec = {module, src_dir, seed, steps, L, profile}.  Returns {"ev": [...], "meta": {...}}."""
    cl, alias = cluster_for(spec["module"], spec.get("src_dir"))
    config.configuration.module_name = spec["module"]
    L = spec["L"]
    configure(L, spec.get("profile", 0))
    rnd = random.Random(f"c15/{spec['seed']}")
    randomness.RNG.seed(spec["seed"])
    factory = tf.TestFactory(cl)
    tcfactory = tcf.RandomLengthTestCaseFactory(factory, cl)
    rec = Recorder(alias, L)
    accessibles = list(cl.accessible_objects_under_test)
    xover = SinglePointRelativeCrossOver()
    suite = tsc.TestSuiteChromosome()
    slots: dict[int, RecChromosome] = {}
    opcount: dict[str, int] = {}

    def new_chrom(k: int, test_case: tc.TestCase) -> RecChromosome:
        ch = RecChromosome(test_case, factory)
        ch.rec = rec
        ch.slot = k
        slots[k] = ch
        return ch

    def random_test_case(k: int) -> None:
        t = tcfactory.get_test_case()
        new_chrom(k, t)
        rec.emit("random_test_case", "random_test_case", k, t, 0)

    for k in range(1, NSLOTS + 1):
        random_test_case(k)

    ops = list(_WEIGHTS)
    weights = [_WEIGHTS[o] for o in ops]
    for _step in range(spec["steps"]):
        op = rnd.choices(ops, weights)[0]
        k = rnd.randint(1, NSLOTS)
        ch = slots[k]
        t = ch.test_case
        n = t.size()
        pos = rnd.randint(0, max(n - 1, 0))
        exc = ""
        site = "other"
        arg = pos
        touched = [(k, None)]  # (slot, explicit pre size)
        try:
            if op == "insert_random":
                if n >= L:
                    continue  # the callers' guard (mutation, random test case factory)
                site = "factory_insert"
                arg = rnd.randint(0, n)
                factory.insert_random_statement(t, arg)
            elif op == "append_accessible":
                factory.append_generic_accessible(t, rnd.choice(accessibles))
            elif op == "delete_gracefully":
                factory.delete_statement_gracefully(t, pos)
            elif op == "change_call":
                factory.change_random_call(t, pos)
            elif op == "change_type":
                factory.change_statement_type(t, pos)
            elif op == "change_field":
                factory.change_random_field_call(t, pos)
            elif op == "mutate_value":
                factory.mutate_value(t, pos)
            elif op == "mutate_call":
                factory.mutate_call(t, pos)
            elif op == "mutate":
                ch.mutate()
            elif op == "crossover":
                k2 = rnd.choice([j for j in slots if j != k])
                ch2 = slots[k2]
                n2 = ch2.test_case.size()
                xover.cross_over(ch, ch2)
                site = "crossover"
                touched = [(k, n), (k2, n2)]
            elif op == "chop":
                arg = rnd.randint(-1, max(n - 1, 0))
                t.chop(arg)
            elif op == "remove_unused":
                t.remove_unused_variables()
            elif op == "remove_fwd":
                if n == 0:
                    continue
                t.remove_statement_with_forward_dependencies(pos)
            elif op == "clone":
                k2 = rnd.choice([j for j in slots if j != k])
                c2 = ch.clone()
                c2.slot = k2
                slots[k2] = c2
                touched = [(k2, n)]
            elif op == "append_test_case":
                k2 = rnd.choice([j for j in slots if j != k])
                t.append_test_case(slots[k2].test_case)
            elif op == "append_from":
                k2 = rnd.choice([j for j in slots if j != k])
                o = slots[k2].test_case
                arg = rnd.randint(0, o.size())
                t.append_test_case_from(o, arg)
            elif op == "local_search":
                if n == 0:
                    continue
                if ch.get_last_execution_result() is None:
                    ch.set_last_execution_result(ExecutionResult())
                TestCaseLocalSearch(suite, None, StubTimer(rnd.randint(5, 60))).local_search(
                    ch, factory, StubObjective(rnd, rec, k))
            elif op == "set_result":
                r = ExecutionResult()
                if n and rnd.random() < 0.7:
                    r.report_new_thrown_exception(pos, ValueError("c15"))
                ch.set_last_execution_result(r)
            elif op == "random_test_case":
                random_test_case(k)
                opcount[op] = opcount.get(op, 0) + 1
                continue
        except UnsupportedStatement:
            raise
        except Exception as ex:  # noqa: BLE001  an operator crashed: recorded, the history goes on
            exc = f"{type(ex).__name__}"
        opcount[op] = opcount.get(op, 0) + 1
        for slot, pre_n in touched:
            c = slots[slot]
            rec.emit(op, site, slot, c.test_case, n if pre_n is None else pre_n, exc, arg)
    return {"ev": rec.events,
            "meta": {"spec": spec, "ops": opcount, "names": {v: k for k, v in rec.names.other.items()}}}


def render(ev: dict, names: dict | None = None) -> str:
    """Readable form of a projected test case (for violation details)."""
    lines = []
    for s in ev["post"]["st"]:
        lines.append(f"{'-' if s['bv'] == NOVAR else 'v' + str(s['bv'])}<-{s['uses']}:{s['ty']}")
    return "; ".join(lines)


# --------------------------------------------------------------------------------------
# generated SUT modules
# --------------------------------------------------------------------------------------
def generate_sut(rnd: random.Random, name: str) -> str:
    """Source of a random SUT module: classes (with class-level fields, properties, methods whose
    parameters are other classes / enums / collections / callables), an enum, free functions."""
    ncls = rnd.randint(2, 4)
    classes = [f"K{i}" for i in range(ncls)]
    enums = ["E0"] + (["E1"] if rnd.random() < 0.5 else [])
    prims = ["int", "float", "str", "bool", "bytes", "complex"]

    def typ(depth: int = 0) -> str:
        x = rnd.random()
        if x < 0.30:
            return rnd.choice(prims)
        if x < 0.55:
            return rnd.choice(classes)
        if x < 0.63:
            return rnd.choice(enums)
        if x < 0.70:
            return rnd.choice(["Callable", "Callable[[int], int]", "Callable[..., Any]"])
        if x < 0.74:
            return "type"
        if x < 0.78:
            return f"{rnd.choice(classes)} | None"
        if depth < 2:
            kind = rnd.choice(["list", "set", "dict", "tuple", "Sequence", "Iterable"])
            if kind == "dict":
                return f"dict[str, {typ(depth + 1)}]"
            if kind == "tuple":
                return f"tuple[{typ(depth + 1)}, {typ(depth + 1)}]"
            if kind == "set":
                return f"set[{rnd.choice(['int', 'str'])}]"
            return f"{kind}[{typ(depth + 1)}]"
        return "int"

    def params(self_: bool) -> str:
        ps = ["self"] if self_ else []
        n = rnd.randint(0, 3)
        had_default = False
        for i in range(n):
            nm = f"p{i}"
            if rnd.random() < 0.2:
                p = nm  # unannotated
            else:
                p = f"{nm}: {typ()}"
            if had_default or rnd.random() < 0.25:
                p += " = None"
                had_default = True
            ps.append(p)
        if rnd.random() < 0.15:
            ps.append("*rest" if rnd.random() < 0.5 else "*rest: int")
        if rnd.random() < 0.15:
            ps.append("**opts")
        return ", ".join(ps)

    def ret() -> str:
        x = rnd.random()
        if x < 0.2:
            return ""
        return f" -> {typ()}"

    out = [f'"""generated SUT {name} for C15 (signatures only)."""',
           "from __future__ import annotations", "",
           "import enum", "from collections.abc import Callable, Iterable, Sequence",
           "from typing import Any", "", ""]
    for e in enums:
        out.append(f"class {e}(enum.Enum):")
        for j in range(rnd.randint(1, 4)):
            out.append(f"    M{j} = {j}")
        out += ["", ""]
    for ci, c in enumerate(classes):
        base = classes[ci - 1] if ci and rnd.random() < 0.3 else ""
        out.append(f"class {c}({base}):" if base else f"class {c}:")
        for j in range(rnd.randint(0, 3)):
            out.append(f"    f{j} = {rnd.choice(['1', '2.5', 'True', chr(39) + 'x' + chr(39), '(1, 2)', '[1]'])}")
        out.append(f"    def __init__({params(True)}) -> None:")
        out.append("        pass")
        for j in range(rnd.randint(1, 4)):
            deco = rnd.random()
            if deco < 0.15:
                out.append("    @property")
                out.append(f"    def q{j}(self){ret()}:")
            elif deco < 0.25:
                out.append("    @staticmethod")
                out.append(f"    def m{j}({params(False)}){ret()}:")
            else:
                out.append(f"    def m{j}({params(True)}){ret()}:")
            out.append("        return None")
        out += ["", ""]
    for j in range(rnd.randint(2, 6)):
        out.append(f"def fn{j}({params(False)}){ret()}:")
        out.append("    return None")
        out += ["", ""]
    return "\n".join(out)

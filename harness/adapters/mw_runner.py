"""Run ONE master/worker scenario on the real code (separate process; C33).

usage: python -m harness.adapters.mw_runner scenario.json out.json

scenario = {"init_time": int (-1 = unlimited), "iters": int, "plan": [{"phase": str, "mode":
"exit"|"raise"|"kill", "elapsed10": int}, ...]}  -- plan[i] applies to worker incarnation i+1;
incarnations beyond the plan run to completion.  elapsed10 = virtual elapsed wall time (tenths of a
second) the master observes for that incarnation (0 = use the real clock).
Events are appended (O_APPEND, one JSON line each) to <workdir>/events.ndjson by master and workers.
"""

from __future__ import annotations

import json
import os
import signal
import sys
import time
from pathlib import Path

PHASES = ["import", "search", "assert", "minimize", "export", "final"]


def main() -> int:
    scen = json.loads(Path(sys.argv[1]).read_text())
    out = Path(sys.argv[2])
    work = out.parent
    evfile = work / "events.ndjson"
    evfile.write_text("")
    sutdir = Path(__file__).resolve().parent.parent / "sut"

    def emit(ev: str, **kw) -> None:
        rec = {"ev": ev, "pid": os.getpid(), **kw}
        fd = os.open(evfile, os.O_WRONLY | os.O_APPEND)
        try:
            os.write(fd, (json.dumps(rec) + "\n").encode())
        finally:
            os.close(fd)

    import pynguin.generator as gen
    import pynguin.master_worker.master as master
    import pynguin.master_worker.worker as worker
    import pynguin.testcase.execution as execution

    plan = scen["plan"]
    state = {"inc": 0, "vnow": 1000.0, "use_virtual": any(p.get("elapsed10", 0) for p in plan)}

    # ---------------- master side: virtual clock + event recording -----------------
    class _Clock:
        @staticmethod
        def time() -> float:
            return state["vnow"] if state["use_virtual"] else time.time()

        def __getattr__(self, name):
            return getattr(time, name)

    master.time = _Clock()

    orig_start = master.RunningTask._start_worker

    def start_worker(self, task):
        state["inc"] += 1
        os.environ["VERIF_MW_INC"] = str(state["inc"])
        emit("Start", inc=state["inc"], st=int(task.configuration.stopping.maximum_search_time),
             restarts=int(self._restart_count), sub=bool(task.configuration.subprocess))
        return orig_start(self, task)

    master.RunningTask._start_worker = start_worker

    orig_adjust = master.RunningTask._adjust_search_time_after_crash

    def adjust(self, elapsed_time):
        old = int(self._task.configuration.stopping.maximum_search_time)
        r = orig_adjust(self, elapsed_time)
        new = int(self._task.configuration.stopping.maximum_search_time)
        emit("Adjust", inc=state["inc"], old=old, new=new, elapsed10=int(round(elapsed_time * 10)),
             elapsed_pos=bool(elapsed_time > 0), virtual=state["use_virtual"])
        return r

    master.RunningTask._adjust_search_time_after_crash = adjust

    orig_restart = master.RunningTask._restart

    def restart(self):
        inc = state["inc"]
        e10 = plan[inc - 1].get("elapsed10", 0) if inc - 1 < len(plan) else 0
        if state["use_virtual"]:
            state["vnow"] += (e10 or 1) / 10.0
        emit("RecvEOF", inc=inc)
        ok = orig_restart(self)
        emit("Restart", inc=inc, decided=bool(ok), restarts=int(self._restart_count),
             st=int(self._task.configuration.stopping.maximum_search_time))
        return ok

    master.RunningTask._restart = restart

    orig_get = master.RunningTask.get_result
    depth = {"n": 0}

    def get_result(self):
        depth["n"] += 1
        try:
            res = orig_get(self)
        finally:
            depth["n"] -= 1
        if depth["n"] == 0:
            emit("MasterResult", wrc=int(res.worker_return_code), rc=-1 if res.return_code is None else int(res.return_code),
                 restarts=int(res.restart_count), err=res.error is not None)
        return res

    master.RunningTask.get_result = get_result

    # ---------------- worker side (inherited through fork): crash plan -----------------
    def my_plan():
        inc = int(os.environ.get("VERIF_MW_INC", "0"))
        return inc, (plan[inc - 1] if 0 < inc <= len(plan) else None)

    def at_phase(phase: str) -> None:
        inc, p = my_plan()
        if os.environ.get("VERIF_MW_WPID") != str(os.getpid()):
            return  # a subprocess-executor child, not the worker itself
        emit("Phase", inc=inc, phase=phase)
        if p and p["phase"] == phase:
            emit("Die", inc=inc, phase=phase, mode=p["mode"])
            if p["mode"] == "exit":
                os._exit(87)
            if p["mode"] == "kill":
                os.kill(os.getpid(), signal.SIGKILL)
            raise RuntimeError(f"injected failure at {phase}")

    def wrap(mod, name, phase):
        orig = getattr(mod, name)

        def w(*a, **k):
            at_phase(phase)
            return orig(*a, **k)

        setattr(mod, name, w)

    wrap(gen, "_setup_and_check", "import")
    wrap(gen, "_generate_assertions", "assert")
    wrap(gen, "_minimize", "minimize")
    wrap(gen, "_export_chromosome", "export")
    wrap(gen, "_collect_miscellaneous_statistics", "final")

    # "search": die at the third test-case execution of the search
    count = {"n": 0, "armed": False}
    orig_inst = gen._instantiate_test_generation_strategy

    def inst(*a, **k):
        count["armed"] = True
        return orig_inst(*a, **k)

    gen._instantiate_test_generation_strategy = inst

    def wrap_exec(cls):
        orig = cls.execute

        def execute(self, *a, **k):
            if count["armed"]:
                count["n"] += 1
                if count["n"] == 3:
                    count["armed"] = False
                    at_phase("search")
            return orig(self, *a, **k)

        cls.execute = execute

    wrap_exec(execution.TestCaseExecutor)
    try:
        import pynguin.testcase.subprocess_executor as spx  # noqa: PLC0415

        for nm in dir(spx):
            c = getattr(spx, nm)
            if isinstance(c, type) and "execute" in c.__dict__ and c is not execution.TestCaseExecutor:
                wrap_exec(c)
    except Exception:  # noqa: BLE001
        pass

    orig_wm = worker.worker_main

    def worker_main(task, conn):
        inc = int(os.environ.get("VERIF_MW_INC", "0"))
        os.environ["VERIF_MW_WPID"] = str(os.getpid())
        emit("WorkerBegin", inc=inc, st=int(task.configuration.stopping.maximum_search_time))
        orig_send = conn.send

        def send(obj):
            emit("WorkerSend", inc=inc, rc=-1 if obj.return_code is None else int(obj.return_code),
                 err=obj.error is not None)
            return orig_send(obj)

        try:
            conn.send = send
        except Exception:  # noqa: BLE001
            pass
        return orig_wm(task, conn)

    worker.worker_main = worker_main
    master.worker_main = worker_main

    # ---------------- run the real command -----------------
    from pynguin import cli  # noqa: PLC0415

    argv = ["pynguin", "--project-path", str(sutdir), "--module-name", "mw_sut",
            "--output-path", str(work / "out"), "--report-dir", str(work / "rep"),
            "--maximum-search-time", str(scen["init_time"]),
            "--maximum-iterations", str(scen.get("iters", 2)),
            "--seed", "1", "--no-rich", "--assertion-generation", scen.get("assertions", "SIMPLE"),
            "--population", "4"]
    emit("CmdStart", init_time=scen["init_time"])
    t0 = time.time()
    rc = cli.main(argv)
    emit("CmdReturn", rc=int(rc), wall10=int((time.time() - t0) * 10))
    out.write_text(json.dumps({"rc": int(rc)}))
    return 0


if __name__ == "__main__":
    sys.exit(main())

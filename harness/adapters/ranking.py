"""Abstract C14 cases -> real RankBasedPreferenceSorting / fast_epsilon_dominance_assignment /
RankSelection; real results -> fronts as lists of individual ids, distance tags, indices.

Individuals are real TestCaseChromosomes wrapping real TestCases with `len` statements; the
fitness functions are FitnessFunction objects that look the value up in the case's matrix, so
get_fitness_for() runs through the real ComputationCache.  The only replaced pieces are the two
random sources (randomness.next_bool / next_float) and configuration.search_algorithm.population.
"""

from __future__ import annotations

import math

import libcst as cst

import pynguin.configuration as config
import pynguin.ga.computations as ff
import pynguin.ga.testcasechromosome as tcc
import pynguin.testcase.testcase as tc
from pynguin.ga.operators import ranking as rk
from pynguin.ga.operators.selection import RankSelection
from pynguin.utils import randomness
from pynguin.utils.orderedset import OrderedSet

_NODES: dict[str, object] = {}


def _stmt(k: int, value: int) -> tc.Statement:
    src = f"var_{k} = {value}"
    node = _NODES.get(src)
    if node is None:
        node = _NODES[src] = cst.parse_statement(src)
    return tc.Statement(node=node, bound_variable=f"var_{k}", bound_type=int)


class MatrixGoal(ff.FitnessFunction):
    """Goal g: fitness of an individual = its matrix entry (minimising)."""

    def __init__(self, g: int, table: dict[int, list[float]]):
        self.g = g
        self.table = table

    def compute_fitness(self, individual) -> float:
        return self.table[id(individual)][self.g - 1]

    def compute_is_covered(self, individual) -> bool:
        return self.compute_fitness(individual) == 0.0

    def is_maximisation_function(self) -> bool:
        return False


class Population:
    """Real chromosomes for an abstract population [{f: [...], len: k}, ...]."""

    def __init__(self, P: list[dict], share: bool):
        self.P = P
        self.n = len(P)
        ng = len(P[0]["f"]) if P else 0
        self.table: dict[int, list[float]] = {}
        self.goals = {g: MatrixGoal(g, self.table) for g in range(1, ng + 1)}
        self.inds = []
        first: dict[tuple, int] = {}
        for i, ind in enumerate(P, start=1):
            key = (tuple(ind["f"]), ind["len"])
            uid = first.setdefault(key, i) if share else i
            t = tc.TestCase()
            for k in range(ind["len"]):
                t.add_statement(_stmt(k, 1000 + uid if k == 0 else k))
            c = tcc.TestCaseChromosome(t)
            self.table[id(c)] = [float(v) for v in ind["f"]]
            for g in self.goals.values():
                c.add_fitness_function(g)
            self.inds.append(c)
        self.ident = {id(c): i for i, c in enumerate(self.inds, start=1)}

    def ids(self, chromosomes) -> list[int]:
        return [self.ident[id(c)] for c in chromosomes]


def dist_tag(d) -> str:
    if isinstance(d, float) and math.isnan(d):
        return "nan"
    if d in (math.inf, -math.inf):
        return "inf"
    if d < 0:
        return "neg"
    if d == 0:
        return "zero"
    if d < 1:
        return "in01"
    if d == 1:
        return "one"
    return "gt1"


def dist_num(d, length: int) -> int:
    try:
        x = d * length
        r = round(x)
        return int(r) if abs(x - r) < 1e-9 and abs(r) < 2**30 else -1
    except (OverflowError, ValueError):
        return -1


def rank_call(popn: Population, call: dict) -> list[dict]:
    """compute_ranking_assignment + the crowding-distance calls on every front and on the whole
    population; returns the two recorded events."""
    goals = OrderedSet(popn.goals[g] for g in call["goals"])
    coins = list(call["coins"])
    used = [0]

    def next_bool() -> bool:
        v = coins[used[0] % len(coins)]
        used[0] += 1
        return bool(v)

    for c in popn.inds:
        c.rank = -1
        c.distance = -1
    old_pop = config.configuration.search_algorithm.population
    old_nb = randomness.next_bool
    config.configuration.search_algorithm.population = call["pop"]
    randomness.next_bool = next_bool
    ev_rank = {"op": "rank", "pop": call["pop"], "goals": list(call["goals"]), "coins": coins,
               "rt": "ok", "fronts": [], "rk": [], "nb": 0}
    fronts_real: list[list] = []
    try:
        res = rk.RankBasedPreferenceSorting().compute_ranking_assignment(list(popn.inds), goals)
        fronts_real = [list(f) for f in (res.fronts or [])]
        ev_rank["fronts"] = [popn.ids(f) for f in fronts_real]
    except Exception as ex:  # noqa: BLE001 - recorded, judged by TLC
        ev_rank["rt"] = type(ex).__name__
    finally:
        config.configuration.search_algorithm.population = old_pop
        randomness.next_bool = old_nb
    ev_rank["rk"] = [int(c.rank) for c in popn.inds]
    ev_rank["nb"] = used[0]

    ev_crowd = {"op": "crowd", "goals": list(call["goals"]), "rt": "ok", "cf": [], "dt": [], "dn": []}
    try:
        for front in [*fronts_real, list(popn.inds)]:
            rk.fast_epsilon_dominance_assignment(front, goals)
            ev_crowd["cf"].append(popn.ids(front))
            ev_crowd["dt"].append([dist_tag(c.distance) for c in front])
            ev_crowd["dn"].append([dist_num(c.distance, len(front)) for c in front])
    except Exception as ex:  # noqa: BLE001
        ev_crowd["rt"] = type(ex).__name__
    return [ev_rank, ev_crowd]


def replay_rank(beh: dict, calls: list[dict] | None = None) -> dict:
    """One population, a list of calls (beh["hist"] or the given parameter space).  Coin variants
    of a call are skipped when the first variant consumed no coin (the real code never asked)."""
    popn = Population(beh["P"], bool(beh["share"]))
    events: list[dict] = []
    coinless: set[tuple] = set()
    for call in (calls if calls is not None else beh["hist"]):
        key = (call["pop"], tuple(call["goals"]))
        if calls is not None and key in coinless:
            continue
        evs = rank_call(popn, call)
        if evs[0]["nb"] == 0 and evs[0]["rt"] == "ok":
            coinless.add(key)
        events.extend(evs)
    return {"kind": "rank", "share": bool(beh["share"]), "P": beh["P"], "ev": events}


# --------------------------------------------------------------------------- rank selection
def bias_value(b: dict) -> float:
    kind, p, q = b["kind"], b["p"], b["q"]
    if kind == "ratio":
        return p / q
    if kind == "1+ulp":
        return 1.0 + p * 2.0 ** -52
    if kind == "1+2^-":
        return 1.0 + 2.0 ** -p
    if kind == "2-ulp":
        return 2.0 - p * 2.0 ** -52
    if kind == "2+ulp":
        return 2.0 + p * 2.0 ** -51
    raise ValueError(kind)


def draw_value(d: dict, K: int) -> float:
    kind, k = d["kind"], d["k"]
    if kind == "grid":
        return k / K
    if kind == "0+":
        return 2.0 ** -k
    if kind == "1-ulp":
        return 1.0 - k * 2.0 ** -53
    if kind == "1-2^-":
        return 1.0 - 2.0 ** -k
    raise ValueError(kind)


def bias_class(b: float) -> str:
    if b == 1.0:
        return "bias=1.0"
    if 1.0 < b < 1.2:
        return "1<bias<1.2"
    if b <= 2.0:
        return "1.2<=bias<=2"
    return "bias>2"


def replay_select(case: dict, specials: list[dict]) -> dict:
    """RankSelection(bias).get_index(population of n) for every draw, ascending."""
    n, K = case["n"], case["K"]
    bias = bias_value(case["bias"])
    draws = [{"kind": "grid", "k": k} for k in range(K)] + list(specials)
    vals = sorted(((draw_value(d, K), i) for i, d in enumerate(draws)))
    assert all(0.0 <= v < 1.0 for v, _ in vals)
    assert all(vals[i][0] < vals[i + 1][0] for i in range(len(vals) - 1)), "duplicate draws"
    sel = RankSelection(bias)
    population = [object() for _ in range(n)]
    cur = [0.0]
    old = randomness.next_float
    randomness.next_float = lambda *a, **k: cur[0]
    events = []
    try:
        for v, i in vals:
            cur[0] = v
            ev = {"op": "select", "d": draws[i], "rt": "int", "idx": 0}
            try:
                idx = sel.get_index(population)
                if isinstance(idx, int) and abs(idx) < 2**30:
                    ev["idx"] = idx
                else:
                    ev["rt"] = f"not-an-index:{type(idx).__name__}"
            except Exception as ex:  # noqa: BLE001
                ev["rt"] = type(ex).__name__
            events.append(ev)
    finally:
        randomness.next_float = old
    return {"kind": "select", "n": n, "bias": case["bias"], "K": K, "bv": repr(bias),
            "bcls": bias_class(bias), "ev": events}

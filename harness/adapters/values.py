"""Concrete representatives of the abstract value classes used by C04 / C01 / C05.

make(name) returns a FRESH object each call.  User-class representatives log every dunder call
into LOG; iterator representatives count how many elements were consumed.
"""

from __future__ import annotations

import math
from decimal import Decimal
from fractions import Fraction

LOG: list[str] = []


def _logged(name):
    def deco(fn):
        def w(self, *a):
            LOG.append(f"{self.tag}.{name}")
            return fn(self, *a)
        w.__name__ = name
        return w
    return deco


class UBase:
    tag = "u"

    def __repr__(self):
        return f"<{self.tag}>"


class UPlain(UBase):
    tag = "u_plain"


class UEqTrue(UBase):
    tag = "u_eq_true"
    __hash__ = object.__hash__

    @_logged("__eq__")
    def __eq__(self, o):
        return True

    @_logged("__ne__")
    def __ne__(self, o):
        return False


class UEqNotImpl(UBase):
    tag = "u_eq_notimpl"
    __hash__ = object.__hash__

    @_logged("__eq__")
    def __eq__(self, o):
        return NotImplemented


class UEqRaises(UBase):
    tag = "u_eq_raises"
    __hash__ = object.__hash__

    @_logged("__eq__")
    def __eq__(self, o):
        raise ValueError("eq raises")


class UEqOnly(UBase):
    """__eq__ defined, __ne__ raises: the original `==` never calls __ne__."""
    tag = "u_eq_only"
    __hash__ = object.__hash__

    @_logged("__eq__")
    def __eq__(self, o):
        return isinstance(o, UEqOnly)

    @_logged("__ne__")
    def __ne__(self, o):
        raise RuntimeError("__ne__ must not be called")


class UNeOnly(UBase):
    """Only __ne__ (always False); `==` falls back to identity: == and != are not complementary."""
    tag = "u_ne_only"

    @_logged("__ne__")
    def __ne__(self, o):
        return False


class UEqNeBoth(UBase):
    """__eq__ and __ne__ both answer True."""
    tag = "u_eq_ne_both"
    __hash__ = object.__hash__

    @_logged("__eq__")
    def __eq__(self, o):
        return True

    @_logged("__ne__")
    def __ne__(self, o):
        return True


class ULtOnly(UBase):
    """Only __lt__: `<` works, `<=` raises TypeError."""
    tag = "u_lt_only"

    def __init__(self, v=1):
        self.v = v

    @_logged("__lt__")
    def __lt__(self, o):
        return self.v < getattr(o, "v", 0)


class UOrdered(UBase):
    tag = "u_ordered"
    __hash__ = object.__hash__

    def __init__(self, v=1):
        self.v = v

    @_logged("__lt__")
    def __lt__(self, o):
        return self.v < getattr(o, "v", o if isinstance(o, (int, float)) else 0)

    @_logged("__le__")
    def __le__(self, o):
        return self.v <= getattr(o, "v", o if isinstance(o, (int, float)) else 0)

    @_logged("__gt__")
    def __gt__(self, o):
        return self.v > getattr(o, "v", o if isinstance(o, (int, float)) else 0)

    @_logged("__ge__")
    def __ge__(self, o):
        return self.v >= getattr(o, "v", o if isinstance(o, (int, float)) else 0)

    @_logged("__eq__")
    def __eq__(self, o):
        return self.v == getattr(o, "v", o)


class UBoolRaises(UBase):
    tag = "u_bool_raises"

    @_logged("__bool__")
    def __bool__(self):
        raise ValueError("bool raises")


class UBoolFalse(UBase):
    tag = "u_bool_false"

    @_logged("__bool__")
    def __bool__(self):
        return False


class ULen0(UBase):
    tag = "u_len0"

    @_logged("__len__")
    def __len__(self):
        return 0


class ULen3(UBase):
    tag = "u_len3"

    @_logged("__len__")
    def __len__(self):
        return 3


class ULenRaises(UBase):
    tag = "u_len_raises"

    @_logged("__len__")
    def __len__(self):
        raise ValueError("len raises")


class UContains(UBase):
    tag = "u_contains"

    @_logged("__contains__")
    def __contains__(self, x):
        return x == 1


class UContainsRaises(UBase):
    tag = "u_contains_raises"

    @_logged("__contains__")
    def __contains__(self, x):
        raise KeyError("contains raises")


class UEqNonBool(UBase):
    """__eq__ returns a non-bool truthy object (like array libraries)."""
    tag = "u_eq_nonbool"
    __hash__ = object.__hash__

    @_logged("__eq__")
    def __eq__(self, o):
        return [1]

    @_logged("__ne__")
    def __ne__(self, o):
        return []


class CountingIter:
    tag = "it"

    def __init__(self, items):
        self._it = iter(items)
        self.consumed = 0

    def __iter__(self):
        return self

    def __next__(self):
        v = next(self._it)
        self.consumed += 1
        return v


class MyError(ValueError):
    pass


_nan = float("nan")

FACTORY = {
    # ints / bools
    "i_neg1": lambda: -1, "i_0": lambda: 0, "i_1": lambda: 1, "i_2": lambda: 2,
    "i_2p53": lambda: 2 ** 53, "i_2p53p1": lambda: 2 ** 53 + 1, "i_2p60p1": lambda: 2 ** 60 + 1,
    "i_huge": lambda: 10 ** 400, "i_neghuge": lambda: -(10 ** 400),
    "b_true": lambda: True, "b_false": lambda: False,
    # floats
    "f_nan": lambda: float("nan"), "f_inf": lambda: math.inf, "f_ninf": lambda: -math.inf,
    "f_negzero": lambda: -0.0, "f_zero": lambda: 0.0, "f_1": lambda: 1.0, "f_1p5": lambda: 1.5,
    "f_2p53": lambda: float(2 ** 53), "f_2p60": lambda: float(2 ** 60), "f_max": lambda: 1.7976931348623157e308,
    "f_sub": lambda: 5e-324,
    # complex / Decimal / Fraction
    "c_0": lambda: 0j, "c_1": lambda: 1 + 0j, "c_i": lambda: 1j, "c_nan": lambda: complex(_nan, 0.0),
    "d_1": lambda: Decimal(1), "d_1p5": lambda: Decimal("1.5"), "d_nan": lambda: Decimal("NaN"),
    "d_inf": lambda: Decimal("Infinity"),
    "q_half": lambda: Fraction(1, 2), "q_1": lambda: Fraction(1), "q_huge": lambda: Fraction(10 ** 400),
    # text
    "s_empty": lambda: "", "s_a": lambda: "a", "s_b": lambda: "b", "s_ab": lambda: "ab",
    "s_uni": lambda: "é", "s_sur": lambda: "\ud800", "s_astral": lambda: "\U0001F600",
    "y_empty": lambda: b"", "y_a": lambda: b"a", "y_hi": lambda: b"\xff", "ba_a": lambda: bytearray(b"a"),
    # containers
    "l_empty": lambda: [], "l_1": lambda: [1], "l_nan": lambda: [float("nan")], "l_a": lambda: ["a"],
    "t_1": lambda: (1,), "t_a": lambda: ("a",), "set_1": lambda: {1}, "fs_1": lambda: frozenset({1}),
    "m_12": lambda: {1: 2}, "r_3": lambda: range(3), "l_mixed": lambda: [1, "a", None],
    # iterators
    "it_12": lambda: CountingIter([1, 2]), "it_empty": lambda: CountingIter([]),
    "gen_12": lambda: (x for x in [1, 2]),
    # none / user objects
    "n_none": lambda: None,
    "u_plain": UPlain, "u_eq_true": UEqTrue, "u_eq_notimpl": UEqNotImpl, "u_eq_raises": UEqRaises,
    "u_eq_only": UEqOnly, "u_lt_only": ULtOnly, "u_ordered": UOrdered, "u_bool_raises": UBoolRaises,
    "u_bool_false": UBoolFalse, "u_len0": ULen0, "u_len3": ULen3, "u_len_raises": ULenRaises,
    "u_contains": UContains, "u_contains_raises": UContainsRaises, "u_eq_nonbool": UEqNonBool,
    "u_ne_only": UNeOnly, "u_eq_ne_both": UEqNeBoth,
    # exceptions (for EXC_MATCH: left = raised thing, right = handler expression)
    "e_value": lambda: ValueError("x"), "e_key": lambda: KeyError("k"), "e_my": lambda: MyError("m"),
    "e_base": lambda: BaseException("b"), "e_stop": lambda: StopIteration(),
    "k_value": lambda: ValueError, "k_exception": lambda: Exception, "k_lookup": lambda: LookupError,
    "k_my": lambda: MyError, "k_base": lambda: BaseException, "k_tuple": lambda: (KeyError, ValueError),
    "k_empty_tuple": lambda: (),
}

VALUE_NAMES = [n for n in FACTORY if not n.startswith(("e_", "k_"))]
EXC_LEFT = ["e_value", "e_key", "e_my", "e_base", "e_stop", "k_value", "k_my"]
EXC_RIGHT = ["k_value", "k_exception", "k_lookup", "k_my", "k_base", "k_tuple", "k_empty_tuple"]


def make(name):
    return FACTORY[name]()

"""C32 adapter: replay thread schedules of MC_Executor on the real TestCaseExecutor.

Every test case is one statement calling a generated, instrumented SUT function whose body is
the behaviour's program (rec / gate / spin / nap / raise).  Gates are uninstrumented blocking
points released by the harness in exactly the order the behaviour prescribes.
"""

from __future__ import annotations

import ast
import os
import sys
import threading
import time
from pathlib import Path

TIMEOUT = 0.25
GRACE = 6.0
SUT_DIR = Path(__file__).resolve().parent.parent / "sut"

OP_SRC = {
    "rec": ["    if x >= 0:", "        x += 1"],
    "spin": ["    while True:", "        x += 1"],
    "nap": ["    verif_gate.nap()"],
    "raise": ["    raise ValueError('boom')"],
}


def skeleton(beh: dict) -> list[dict]:
    """Events the harness can enforce/observe: Spawn, Park, Release, Result, End and Dead of
    threads that parked before (we hold their thread objects)."""
    parked = set()
    out = []
    for ev in beh["hist"]:
        e, i = ev["e"], ev["i"]
        if e == "Park":
            parked.add(i)
        if e in ("Spawn", "Park", "Release", "Timeout", "Result", "End") or (e == "Dead" and i in parked):
            out.append(ev)
    return out


def enforceable(beh: dict) -> bool:
    """False for schedules with a Release inside the window between a timeout and the return of
    execute() (the second join): a harness cannot hit that window without racing the clock."""
    in_window = False
    for ev in beh["hist"]:
        if ev["e"] == "Timeout":
            in_window = True
        elif ev["e"] == "Result":
            in_window = False
        elif ev["e"] == "Release" and in_window:
            return False
    return True


def render(progs: dict[int, list[str]], uid: str) -> str:
    src = ["import verif_gate", ""]
    for i, prog in sorted(progs.items()):
        src.append(f"def t{i}():")
        src.append(f"    verif_gate.started('{uid}_{i}')")
        src.append("    x = 0")
        for op in prog:
            if op == "gate":
                src.append(f"    verif_gate.point('{uid}_{i}')")
            elif op == "pgate":
                src.append(f"    if verif_gate.Slow('{uid}_{i}') == 1:")
                src.append("        x += 100")
            else:
                src.extend(OP_SRC[op])
        src.append("    return x")
        src.append("")
    return "\n".join(src) + "\n"


def run_behaviour(args) -> dict:
    beh, workdir, uid = args[:3]
    type_tracing = len(args) > 3 and args[3]
    import verif_gate  # noqa: PLC0415

    from harness.adapters import pyn  # noqa: PLC0415

    skel = skeleton(beh)
    progs = {ev["i"]: ev["prog"] for ev in skel if ev["e"] == "Spawn"}
    mod = f"vsut_{uid}"
    Path(workdir).mkdir(parents=True, exist_ok=True)
    src = render(progs, uid)
    (Path(workdir) / f"{mod}.py").write_text(src)
    sp, module = pyn.load_sut(mod, workdir)
    executor = pyn.make_executor(sp, TIMEOUT)
    if type_tracing:
        # the executor the generator uses when type tracing is on: every test case that does not
        # time out is executed a second time with proxies
        from pynguin.analyses.module import generate_test_cluster  # noqa: PLC0415
        from pynguin.testcase.execution import TypeTracingTestCaseExecutor  # noqa: PLC0415

        executor = TypeTracingTestCaseExecutor(executor, generate_test_cluster(mod), 1.0)
    tree = ast.parse(src)
    frange = {}
    for node in tree.body:
        if isinstance(node, ast.FunctionDef):
            frange[int(node.name[1:])] = set(range(node.lineno, node.end_lineno + 1))
    import_lines = set(sp.lineids_to_linenos(sp.instrumentation_tracer.import_trace.covered_line_ids))
    tests = {i: pyn.make_test([f"var_0 = t{i}()"]) for i in progs}
    go = {i: threading.Event() for i in progs}
    done = {i: threading.Event() for i in progs}
    results: dict[int, dict] = {}
    raw: dict[int, object] = {}

    def driver():
        for i in sorted(progs):
            go[i].wait()
            t0 = time.time()
            try:
                res = executor.execute(tests[i])
                raw[i] = res
                proj = pyn.result_projection(sp, res)
                proj["error"] = ""
            except BaseException as ex:  # noqa: BLE001
                proj = {"timeout": False, "lines": [], "pred_lines": [], "exceptions": {},
                        "error": f"{type(ex).__name__}: {ex}"}
            proj["elapsed_ms"] = int((time.time() - t0) * 1000)
            results[i] = proj
            done[i].set()

    dt = threading.Thread(target=driver, daemon=True)
    dt.start()
    mismatch = ""
    released_before_result: dict[int, bool] = {}
    have_result = set()
    for ev in skel:
        e, i = ev["e"], ev["i"]
        if e == "Spawn":
            go[i].set()
        elif e == "Park":
            if not verif_gate.gate(f"{uid}_{i}")["arrived"].wait(10):
                mismatch = f"thread {i} never reached its gate"
                break
        elif e == "Release":
            if i not in have_result:
                released_before_result[i] = True
            verif_gate.gate(f"{uid}_{i}")["release"].set()
        elif e == "Result":
            if not done[i].wait(4 * TIMEOUT + 30):
                mismatch = f"execute() of test {i} did not return within {4 * TIMEOUT + 30}s"
                break
            have_result.add(i)
        elif e == "Dead":
            th = verif_gate.gate(f"{uid}_{i}")["thread"]
            if th is not None:
                th.join(10)
                if th.is_alive():
                    mismatch = f"released thread {i} did not finish"
                    break
    for i in progs:
        go[i].set()
    evs = []
    time.sleep(0.05)
    for i in sorted(progs):
        hung = not done[i].wait(4 * TIMEOUT + 30)
        r = results.get(i, {"timeout": False, "lines": [], "pred_lines": [], "exceptions": {},
                            "error": "no result", "elapsed_ms": 10 ** 6})
        if i in raw:
            # project the result object again at the very end: an abandoned execution must not add
            # anything to it later either
            late = pyn.result_projection(sp, raw[i])
            r = dict(r, lines=sorted(set(r["lines"]) | set(late["lines"])),
                     pred_lines=sorted(set(r["pred_lines"]) | set(late["pred_lines"])),
                     exceptions={**r["exceptions"], **late["exceptions"]})
        prog = progs[i]
        nonterm = any(op in ("spin", "nap") for op in prog) or (
            ("gate" in prog or "pgate" in prog) and not released_before_result.get(i, False))
        own = sorted(frange[i] | import_lines)
        evs.append({
            "e": "Result", "i": i, "prog": prog, "hung": bool(hung or r["error"] == "no result"),
            "timeout": bool(r["timeout"]), "lines": r["lines"], "own": own,
            "pred_lines": r["pred_lines"], "exc": bool(r["exceptions"]),
            "may_raise": "raise" in prog, "nonterm": bool(nonterm),
            "late": bool(r["elapsed_ms"] > (2 * TIMEOUT + GRACE) * 1000),
            "elapsed_ms": int(r["elapsed_ms"]), "error": r["error"],
            "starts": verif_gate.starts(f"{uid}_{i}"), "type_tracing": bool(type_tracing),
            "expect_timeout": bool(beh["expect"][i - 1]["timeout"]),
        })
    sys.modules.pop(mod, None)
    try:
        os.remove(Path(workdir) / f"{mod}.py")
    except OSError:
        pass
    return {"ev": evs, "mismatch": mismatch}

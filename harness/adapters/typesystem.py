"""TypeSystem adapter (C25, C26): abstract hierarchy / history -> real pynguin calls.

A case (one class hierarchy + a universe of proper types, emitted by MC_TypeSystem.tla) is
rendered as a Python module: the classes with the given bases and one function
``def f_i(x: T_i) -> T_i`` per universe type, so that every universe type is both a requested
parameter type and the return type of a generator.  The module is analysed by the REAL
``pynguin.analyses.module.generate_test_cluster`` (once per generator provider); the universe
is read back from the inferred signatures and projected to the abstract type records of
TypeSystemOps.tla.  Recorded: the full matrices of ``is_subtype``, ``is_maybe_subtype``,
``subtype_distance`` over the universe, ``is_subclass`` and Python's ``issubclass`` over the
analysed classes, and the generator sets both providers offer for every requested type.

Types that no annotation denotes -- the empty tuple ``tuple[()]`` is read as a tuple of unknown
size by ``convert_type_hint`` -- are built directly (``TupleType(())``) in the analysed type
system: they take part in every relation matrix and are requested from both providers, but no
generator returns them.

A history (cache part of C26) is replayed on a real ``ModuleTestCluster``; every call and its
answer is recorded together with the generator table of the provider after the call (key type
of every registration and ``generated_type()`` of the registered generator), at the end every
asked query is asked again (cached answer) and recomputed on a fresh cluster that received the
same updates without any query in between.

Nothing here decides a property: only driving, projecting and recording.
"""

from __future__ import annotations

import importlib
import json
import random
import sys
from pathlib import Path

BUILTIN_NAMES = ("object", "bool", "int", "float", "complex", "str", "list", "set", "dict", "bytes", "tuple")
ARITY = {"list": 1, "set": 1, "dict": 2}


# ----------------------------------------------------------------------------- abstract types
def T(k, c="", a=()):
    return {"k": k, "c": c, "a": list(a)}


ANY = T("any")
NONE = T("none")


def cl(c):
    return T("inst", c)


def tkey(t) -> str:
    return json.dumps(t, sort_keys=True, separators=(",", ":"))


def members_key(t) -> str:
    """Key that ignores the order of union members (the real code sorts them by str)."""
    if t["k"] == "union":
        return "U(" + ",".join(sorted(members_key(x) for x in t["a"])) + ")"
    return t["k"] + ":" + t["c"] + "(" + ",".join(members_key(x) for x in t["a"]) + ")"


def has_empty_tuple(t) -> bool:
    """tuple[()] cannot be written as an annotation that pynguin reads as the empty tuple."""
    return (t["k"] == "tuple" and not t["a"]) or any(has_empty_tuple(x) for x in t["a"])


def build_real(t, tsm, type_info):
    """The real ProperType for an abstract type, built without convert_type_hint."""
    k = t["k"]
    if k == "any":
        return tsm.ANY
    if k == "none":
        return tsm.NONE_TYPE
    if k == "inst":
        return tsm.Instance(type_info(t["c"]), tuple(build_real(x, tsm, type_info) for x in t["a"]))
    if k == "tuple":
        return tsm.TupleType(tuple(build_real(x, tsm, type_info) for x in t["a"]))
    if k == "union":
        return tsm.UnionType(tuple(sorted(build_real(x, tsm, type_info) for x in t["a"])))
    raise ValueError(k)


def depth(t) -> int:
    return 0 if not t["a"] else 1 + max(depth(x) for x in t["a"])


def annotation(t, top: bool = True) -> str:
    """Python source of the annotation that denotes the abstract type."""
    k = t["k"]
    if k == "any":
        return "typing.Any"
    if k == "none":
        # a bare None inside list[...] / tuple[...] is read as "no annotation" (Any) by
        # convert_type_hint; NoneType is what denotes the None type there
        return "None" if top else "type(None)"
    if k == "inst":
        if t["a"]:
            return f"{t['c']}[{', '.join(annotation(x, False) for x in t['a'])}]"
        return t["c"]
    if k == "tuple":
        if not t["a"]:
            return "tuple[()]"
        return f"tuple[{', '.join(annotation(x, False) for x in t['a'])}]"
    if k == "union":
        return f"typing.Union[{', '.join(annotation(x, False) for x in t['a'])}]"
    raise ValueError(k)


def random_types(rng: random.Random, user: list[str], n: int) -> list[dict]:
    """Random proper types of depth <= 2 (instances, generics, tuples, unions, None, Any)."""
    atoms = [ANY, NONE] + [cl(c) for c in ["int", "float", "bool", "complex", "str", "object", *user]]

    def gen(d: int):
        if d == 0:
            return rng.choice(atoms)
        kind = rng.choice(["list", "set", "dict", "tuple1", "tuple2", "tuple3", "union2", "union3"])
        if kind in ("list", "set"):
            return T("inst", kind, [gen(d - 1)])
        if kind == "dict":
            return T("inst", "dict", [rng.choice([cl("str"), cl("int")]), gen(d - 1)])
        if kind.startswith("tuple"):
            return T("tuple", "", [gen(rng.choice([0, d - 1])) for _ in range(int(kind[-1]))])
        items, seen = [], set()
        for _ in range(int(kind[-1])):
            x = gen(rng.choice([0, d - 1]))
            if x["k"] != "union" and tkey(x) not in seen:
                seen.add(tkey(x))
                items.append(x)
        if len(items) >= 2:
            return T("union", "", items)
        return items[0] if items else rng.choice(atoms)

    out = []
    for _ in range(n):
        out.append(gen(rng.choice([1, 1, 2])))
    return out


# --------------------------------------------------------------------------------- rendering
def class_source(user: list[str], hier: list[dict]) -> str:
    src = []
    for name, hc in zip(user, hier):
        ub = sorted(hc["ub"], key=lambda c: -user.index(c))  # most derived first: consistent MRO
        bases = ", ".join(ub) if ub else hc["bb"]
        src.append(f"class {name}({bases}):\n    def __init__(self) -> None:\n        pass\n")
    return "\n".join(src)


def render_static(case: dict, types: list[dict], name: str, directory: Path) -> None:
    src = ["import typing\n", class_source(case["user"], case["hier"])]
    for i, t in enumerate(types):
        if has_empty_tuple(t):
            continue            # built directly by analyse_static, no generator
        a = annotation(t)
        src.append(f"def f_{i}(x: {a}) -> {a}:\n    return x\n")
    (directory / f"{name}.py").write_text("\n".join(src))


def render_history(case: dict, name: str, directory: Path) -> None:
    user = case["user"]
    src = [class_source(user, case["hier"]),
           f"def m1() -> {annotation(case['extra_m1'])}:\n    return None\n"]
    (directory / f"{name}.py").write_text("\n".join(src))
    ex = ["import typing", f"from {name} import *\n"]
    for g, t in sorted(case["extra"].items()):
        if t["k"] == "any":
            ex.append(f"def {g}():\n    return None\n")
        else:
            ex.append(f"def {g}() -> {annotation(t)}:\n    return None\n")
    (directory / f"{name}_extra.py").write_text("\n".join(ex))


def _ensure_path(directory: Path) -> None:
    d = str(directory)
    if d not in sys.path:
        sys.path.insert(0, d)
    importlib.invalidate_caches()


def _forget(*names: str) -> None:
    for n in names:
        sys.modules.pop(n, None)


# -------------------------------------------------------------------------------- projection
def make_projector(mod: str):
    from pynguin.analyses import typesystem as tsm

    def cname(info) -> str:
        if info.module == "builtins":
            return info.name
        if info.module == mod:
            return info.qualname
        return info.full_name

    def proj(pt):
        if isinstance(pt, tsm.AnyType):
            return ANY
        if isinstance(pt, tsm.NoneType):
            return NONE
        if isinstance(pt, tsm.Instance):
            return T("inst", cname(pt.type), [proj(x) for x in pt.args])
        if isinstance(pt, tsm.TupleType):
            return T("tuple", "?" if pt.unknown_size else "", [proj(x) for x in pt.args])
        if isinstance(pt, tsm.UnionType):
            return T("union", "", [proj(x) for x in pt.items])
        return T("other", type(pt).__name__)

    return proj


def _cluster(mod: str, provider: str):
    """Real module analysis with the real provider selection (configuration switch)."""
    import pynguin.configuration as config
    from pynguin.analyses.module import generate_test_cluster

    sel = config.configuration.generator_selection
    old = sel.generator_selection_algorithm
    sel.generator_selection_algorithm = (
        config.Selection.RANK_SELECTION if provider == "G" else config.Selection.RANDOM_SELECTION)
    try:
        _forget(mod)
        cluster = generate_test_cluster(mod)
    finally:
        sel.generator_selection_algorithm = old
    want = "GeneratorProvider" if provider == "G" else "RandomGeneratorProvider"
    if type(cluster.generator_provider).__name__ != want:
        raise RuntimeError(f"expected {want}, got {type(cluster.generator_provider).__name__}")
    return cluster


def _short(acc, mod: str) -> str:
    s = str(acc)
    for pre in (mod + ".", "builtins."):
        if s.startswith(pre):
            return s[len(pre):]
    return s


# ------------------------------------------------------------------------------- static case
def analyse_static(job: tuple) -> dict:
    """job = (case, directory, module name, seed, number of extra random types)."""
    case, directory, mod, seed, n_random = job
    directory = Path(directory)
    rng = random.Random(f"{seed}/{mod}")
    user = list(case["user"])
    want = list(case.get("types") or [])
    if not want:  # simulated hierarchy: atoms + random universe
        want = [ANY, NONE] + [cl(c) for c in ["int", "float", "bool", "complex", "str", "object", *user]]
    want += random_types(rng, user, n_random)
    # closure under union members (UnionAll talks about them), no duplicates
    seen, types = set(), []

    def add(t):
        k = members_key(t)
        if k not in seen:
            seen.add(k)
            types.append(t)

    for t in want:
        add(t)
    i = 0
    while i < len(types):
        if types[i]["k"] == "union":
            for m in types[i]["a"]:
                add(m)
        i += 1
    render_static(case, types, mod, directory)
    _ensure_path(directory)
    from pynguin.utils import randomness

    randomness.RNG.seed(seed)
    clusters = {p: _cluster(mod, p) for p in ("G", "R")}
    pymod = sys.modules[mod]
    proj = make_projector(mod)
    raised: list[str] = []
    converted: list[str] = []

    # the universe as the real analysis sees it: parameter type of f_i
    per = {}
    for p, c in clusters.items():
        sigs = {}
        for acc in c.accessible_objects_under_test:
            n = _short(acc, mod)
            if n.startswith("f_") and hasattr(acc, "inferred_signature"):
                sigs[int(n[2:])] = acc.inferred_signature.original_parameters["x"]
        per[p] = sigs
    uni_real, uni_abs, index = {"G": [], "R": []}, [], {}
    direct = [t for t in types if has_empty_tuple(t)]
    for i in range(len(types)):
        if has_empty_tuple(types[i]):
            continue
        if i not in per["G"] or i not in per["R"]:
            raise RuntimeError(f"function f_{i} not analysed in {mod}")
        a = proj(per["G"][i])
        if members_key(a) != members_key(types[i]):
            converted.append(f"{annotation(types[i])} -> {members_key(a)}")
        if members_key(proj(per["R"][i])) != members_key(a):
            raise RuntimeError("the two clusters converted an annotation differently")
        if tkey(a) in index:
            continue
        index[tkey(a)] = len(uni_abs)
        uni_abs.append(a)
        uni_real["G"].append(per["G"][i])
        uni_real["R"].append(per["R"][i])

    # generators (the union members / return types are in the universe by construction)
    gens = {}
    for p, c in clusters.items():
        lst = []
        for typ, accs in c.generators.items():
            a = proj(typ)
            if tkey(a) not in index:
                index[tkey(a)] = len(uni_abs)
                uni_abs.append(a)
                for q in ("G", "R"):
                    uni_real[q].append(typ)
            for acc in accs:
                lst.append({"name": _short(acc, mod), "ret": index[tkey(a)] + 1})
        gens[p] = sorted(lst, key=lambda g: g["name"])
    gname = {g["name"]: i + 1 for i, g in enumerate(gens["G"])}

    # types without an annotation: built directly in both type systems
    from pynguin.analyses import typesystem as tsm
    for t in direct:
        reals = {}
        for p, c in clusters.items():
            def info(cn, _ts=c.type_system):
                ti = _ts.find_type_info(f"{mod}.{cn}" if cn in user else f"builtins.{cn}")
                if ti is None:
                    raise RuntimeError(f"class {cn} unknown to the type system of {mod}")
                return ti
            reals[p] = build_real(t, tsm, info)
        a = proj(reals["G"])
        if tkey(a) in index:
            continue
        index[tkey(a)] = len(uni_abs)
        uni_abs.append(a)
        for p in ("G", "R"):
            uni_real[p].append(reals[p])

    n = len(uni_abs)
    ts = clusters["G"].type_system
    UG = uni_real["G"]

    def call(what, fn, *args, default=None):
        try:
            return fn(*args)
        except Exception as ex:  # noqa: BLE001 - recorded, TLC judges
            raised.append(f"{what}{tuple(str(a) for a in args)}: {type(ex).__name__}")
            return default

    sub = [[bool(call("is_subtype", ts.is_subtype, UG[i], UG[j], default=False)) for j in range(n)]
           for i in range(n)]
    maybe = [[bool(call("is_maybe_subtype", ts.is_maybe_subtype, UG[i], UG[j], default=False))
              for j in range(n)] for i in range(n)]
    dist = []
    for i in range(n):
        row = []
        for j in range(n):
            d = call("subtype_distance", ts.subtype_distance, UG[i], UG[j])
            row.append(-1 if d is None else int(d))
        dist.append(row)

    # analysed classes: is_subclass vs Python's issubclass
    cs = [c for c in BUILTIN_NAMES if c in case["classes"] or c in ("bytes", "tuple")] + user
    import builtins as _b
    pycls = [getattr(pymod, c) if c in user else getattr(_b, c) for c in cs]
    infos = [ts.find_type_info(f"{mod}.{c}" if c in user else f"builtins.{c}") for c in cs]
    for c, info in zip(cs, infos):
        if info is None:
            raised.append(f"find_type_info({c}): not analysed")
    issub = [[issubclass(a, b) for b in pycls] for a in pycls]
    subc = [[bool(call("is_subclass", ts.is_subclass, a, b, default=False)) if a is not None and b is not None
             else False for b in infos] for a in infos]

    # offered generators per requested type, both providers
    off, sel = {}, {}
    for p, c in clusters.items():
        prov = c.generator_provider
        rows, chosen = [], []
        for i in range(n):
            got = call(f"{p}._get_generators_for", prov._get_generators_for, uni_real[p][i], default=())
            rows.append(sorted({gname.get(_short(g.generator, mod), 0) for g in got}))
            s = call(f"{p}.select_generator_for", prov.select_generator_for, uni_real[p][i])
            chosen.append(0 if s is None else gname.get(_short(s, mod), 0))
        off[p], sel[p] = rows, chosen

    _forget(mod)
    ev = {
        "k": "rel", "mod": mod, "user": user, "classes": list(case["classes"]),
        "edges": [list(e) for e in case["edges"]], "anyd": int(case["anyd"]),
        "cs": cs, "issub": issub, "subc": subc,
        "types": uni_abs, "sub": sub, "maybe": maybe, "dist": dist, "raised": raised,
        "converted": converted,
        "gens": gens["G"], "gensR": gens["R"],
        "offG": off["G"], "offR": off["R"], "selG": sel["G"], "selR": sel["R"],
    }
    return {"ev": [ev]}


# ------------------------------------------------------------------------------ history case
class _Session:
    """One real ModuleTestCluster for a history (or its fresh recomputation)."""

    def __init__(self, case: dict, mod: str, prov: str):
        from pynguin.analyses import typesystem as tsm

        self.tsm = tsm
        self.case, self.mod, self.prov = case, mod, prov
        self.cluster = _cluster(mod, prov)
        self.ts = self.cluster.type_system
        self.proj = make_projector(mod)
        self.extra = importlib.import_module(mod + "_extra")
        self.added: dict[str, object] = {}

    def ti(self, c: str):
        full = f"builtins.{c}" if c in BUILTIN_NAMES else f"{self.mod}.{c}"
        info = self.ts.find_type_info(full)
        if info is None:
            raise RuntimeError(f"class {c} unknown to the type system")
        return info

    def real(self, t: dict):
        k = t["k"]
        if k == "any":
            return self.tsm.ANY
        if k == "none":
            return self.tsm.NONE_TYPE
        if k == "inst":
            return self.tsm.Instance(self.ti(t["c"]), tuple(self.real(x) for x in t["a"]))
        if k == "union":
            return self.tsm.UnionType(tuple(self.real(x) for x in t["a"]))
        raise ValueError(k)

    def generators(self) -> dict[str, object]:
        out = {}
        for accs in self.cluster.generators.values():
            for acc in accs:
                out[_short(acc, self.mod).replace(self.mod + "_extra.", "")] = acc
        return out

    def gens_described(self) -> list[dict]:
        out = []
        for typ, accs in self.cluster.generators.items():
            for acc in accs:
                out.append({"g": _short(acc, self.mod).replace(self.mod + "_extra.", ""),
                            "ret": self.proj(typ)})
        return sorted(out, key=lambda x: x["g"])

    def table(self) -> list[dict]:
        """The generator table of the provider as it is now: one record per registration with
        the key type and the type the registered generator generates (reading only)."""
        out = []
        for typ, accs in self.cluster.generators.items():
            for acc in accs:
                out.append({"g": _short(acc, self.mod).replace(self.mod + "_extra.", ""),
                            "key": self.proj(typ), "ret": self.proj(acc.generated_type())})
        return sorted(out, key=lambda x: (x["g"], tkey(x["key"])))

    def add_edge(self, x: str, y: str) -> None:
        self.ts.add_subclass_edge(super_class=self.ti(x), sub_class=self.ti(y))

    def add_gen(self, g: str) -> dict:
        from pynguin.analyses.type_inference import HintInference
        from pynguin.utils.generic.genericaccessibleobject import GenericFunction

        func = getattr(self.extra, g)
        acc = GenericFunction(func, self.ts.infer_type_info(func, type_inference_provider=HintInference()))
        self.cluster.add_generator(acc)
        self.added[g] = acc
        return self.proj(acc.generated_type())

    def update_ret(self, g: str, c: str) -> dict:
        acc = self.added.get(g) or self.generators()[g]
        self.cluster.update_return_type(acc, self.tsm.Instance(self.ti(c)))
        return self.proj(acc.inferred_signature.return_type)

    def query(self, key: dict) -> dict:
        q, ts = key["q"], self.ts
        user = set(self.case["user"])
        ans = {"b": False, "n": 0, "s": []}
        if q == "is_subclass":
            ans["b"] = bool(ts.is_subclass(self.ti(key["l"]["c"]), self.ti(key["r"]["c"])))
        elif q == "is_subtype":
            ans["b"] = bool(ts.is_subtype(self.real(key["l"]), self.real(key["r"])))
        elif q == "is_maybe_subtype":
            ans["b"] = bool(ts.is_maybe_subtype(self.real(key["l"]), self.real(key["r"])))
        elif q == "subtype_distance":
            d = ts.subtype_distance(self.real(key["l"]), self.real(key["r"]))
            ans["n"] = -1 if d is None else int(d)
        elif q in ("get_subclasses", "get_superclasses"):
            got = getattr(ts, q)(self.ti(key["l"]["c"]))
            names = {i.qualname for i in got if i.module == self.mod}
            ans["s"] = sorted(names & user)
        elif q == "offered":
            got = self.cluster.generator_provider._get_generators_for(self.real(key["l"]))
            ans["s"] = sorted(_short(g.generator, self.mod).replace(self.mod + "_extra.", "") for g in got)
        else:
            raise ValueError(q)
        return ans


def replay_history(job: tuple) -> dict:
    """job = (case, directory, module name, provider)."""
    case, directory, mod, prov = job
    directory = Path(directory)
    case = dict(case)
    case["extra_m1"] = cl(case["user"][-1])
    render_history(case, mod, directory)
    _ensure_path(directory)
    _forget(mod, mod + "_extra")
    s = _Session(case, mod, prov)
    events = [{"k": "init", "prov": prov, "user": list(case["user"]), "gens": s.gens_described(),
               "tab": s.table()}]
    asked: list[dict] = []
    seen = set()
    updates = []
    for act in case["hist"]:
        op = act["op"]
        if op == "add_edge":
            s.add_edge(act["x"], act["y"])
            updates.append(act)
            events.append({"k": op, "x": act["x"], "y": act["y"], "tab": s.table()})
        elif op == "add_gen":
            r = s.add_gen(act["x"])
            updates.append(act)
            events.append({"k": op, "g": act["x"], "ret": r, "tab": s.table()})
        elif op == "update_ret":
            r = s.update_ret(act["x"], act["y"])
            updates.append(act)
            events.append({"k": op, "g": act["x"], "c": act["y"], "ret": r, "tab": s.table()})
        elif op == "query":
            key = act["key"]
            ans = s.query(key)
            if tkey(key) not in seen:
                seen.add(tkey(key))
                asked.append(key)
            events.append({"k": op, "key": key, "ans": ans, "tab": s.table()})
        else:
            raise ValueError(op)
    cached = [s.query(k) for k in asked]
    final_tab = s.table()
    # recomputation: a fresh TypeSystem / cluster that received the same updates, no query before
    _forget(mod, mod + "_extra")
    f = _Session(case, mod, prov)
    for act in updates:
        if act["op"] == "add_edge":
            f.add_edge(act["x"], act["y"])
        elif act["op"] == "add_gen":
            f.add_gen(act["x"])
        else:
            f.update_ret(act["x"], act["y"])
    fresh = [f.query(k) for k in asked]
    events.append({"k": "final", "tab": final_tab,
                   "asked": [{"key": k, "cached": c, "fresh": r} for k, c, r in zip(asked, cached, fresh)]})
    _forget(mod, mod + "_extra")
    return {"ev": events}

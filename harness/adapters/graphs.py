"""Graphs adapter (C06, C07): TLC graphs -> real cf.CFG objects; real CFG / CDG / goal graph ->
small-integer projections; generated program corpus; stepping the real _GoalsManager.

Nothing here decides a property: the functions build inputs, call the real code and export what it
returned.
"""

from __future__ import annotations

import shutil
import sys
import sysconfig
from pathlib import Path

import pynguin.configuration as config
import pynguin.ga.coveragegoals as bg
import pynguin.instrumentation.controlflow as cf
from bytecode import Instr
from bytecode.cfg import BasicBlock
from pynguin.ga.algorithms import dynamosaalgorithm as dyn
from pynguin.ga.algorithms.archive import CoverageArchive
from pynguin.utils.orderedset import OrderedSet

LAB = {True: "T", False: "F", None: "N"}
NODE_CAP = 40


# --------------------------------------------------------------------------------------
# P2: abstract CFG -> real CFG object -> real ControlDependenceGraph.compute
# --------------------------------------------------------------------------------------
def _set(x):
    return x["__set__"] if isinstance(x, dict) and "__set__" in x else x


def norm_graph(g: dict) -> dict:
    """TLC value (ToJson or parsed state text) -> {nodes, edges, entry, exit} with sorted lists."""
    return {"nodes": sorted(_set(g["N"])), "edges": sorted([list(e) for e in _set(g["E"])]),
            "entry": g["entry"], "exit": g["exit"]}


def build_cfg(g: dict) -> tuple[cf.CFG, dict]:
    """A real CFG object around the given abstract graph; returns (cfg, real node -> abstract id)."""
    cfg = cf.CFG.__new__(cf.CFG)
    cf.ProgramGraph.__init__(cfg)
    cfg._bytecode_cfg = None  # noqa: SLF001
    real = {}
    for n in g["nodes"]:
        if n == g["entry"]:
            real[n] = cf.ArtificialNode.ENTRY
        elif n == g["exit"]:
            real[n] = cf.ArtificialNode.EXIT
        else:
            real[n] = cf.BasicBlockNode(index=n, basic_block=BasicBlock([Instr("NOP")]))
        cfg.add_node(real[n])
    for u, v, lab in g["edges"]:
        if lab == "N":
            cfg.add_edge(real[u], real[v])
        else:
            val = lab == "T"
            cfg.add_edge(real[u], real[v], **{cf.EDGE_DATA_BRANCH_VALUE: val, "label": val})
    ids = {node: n for n, node in real.items()}
    ids[cf.ArtificialNode.AUGMENTED_ENTRY] = 0
    return cfg, ids


def export_cdg(cdg: cf.ControlDependenceGraph, ids: dict) -> list[list]:
    return sorted([ids[u], ids[v], LAB[d.get(cf.EDGE_DATA_BRANCH_VALUE)]]
                  for u, v, d in cdg.graph.edges(data=True))


def export_queries(cdg: cf.ControlDependenceGraph, ids: dict) -> tuple[list, list]:
    """(nodes for which is_control_dependent_on_root holds, [node, dep node, dep value] triples)."""
    roots, deps = [], []
    for node in cdg.graph.nodes:
        if not isinstance(node, cf.BasicBlockNode):
            continue
        if cdg.is_control_dependent_on_root(node):
            roots.append(ids[node])
        deps.extend([ids[node], ids[d.node], LAB[d.branch_value]] for d in cdg.get_control_dependencies(node))
    return sorted(roots), sorted(deps)


def cfg_event(g: dict, cdg, ids, *, src: str, name: str, raised: str = "") -> dict:
    ev = {"kind": "cfg", "src": src, "name": name, "nodes": g["nodes"], "edges": g["edges"],
          "entry": g["entry"], "exit": g["exit"], "raised": raised,
          "cdg": [], "cdgnodes": [], "root": [], "deps": []}
    if cdg is not None:
        ev["cdg"] = export_cdg(cdg, ids)
        ev["cdgnodes"] = sorted(ids[n] for n in cdg.graph.nodes)
        ev["root"], ev["deps"] = export_queries(cdg, ids)
    return ev


def replay_cfg(g: dict, name: str = "") -> dict:
    """One enumerated CFG -> real compute() -> event."""
    g = norm_graph(g) if "N" in g else g
    cfg, ids = build_cfg(g)
    try:
        cdg = cf.ControlDependenceGraph.compute(cfg)
    except Exception as ex:  # noqa: BLE001  (recorded, judged by TLC clause ComputeSucceeds)
        return cfg_event(g, None, ids, src="p2", name=name, raised=type(ex).__name__)
    return cfg_event(g, cdg, ids, src="p2", name=name)


# --------------------------------------------------------------------------------------
# P1: real CFG of a code object -> abstract graph
# --------------------------------------------------------------------------------------
def export_cfg(cfg: cf.CFG) -> tuple[dict, dict]:
    """Real CFG -> ({nodes, edges, entry, exit}, real node -> id).  Block i -> i+1; ENTRY, EXIT
    after the blocks.  Every node object of the graph is exported (nothing is filtered here)."""
    blocks = sorted(n.index for n in cfg.graph.nodes if isinstance(n, cf.BasicBlockNode))
    top = (blocks[-1] + 1) if blocks else 0
    ids: dict = {}
    for n in cfg.graph.nodes:
        if isinstance(n, cf.BasicBlockNode):
            ids[n] = n.index + 1
        elif n is cf.ArtificialNode.ENTRY:
            ids[n] = top + 1
        elif n is cf.ArtificialNode.EXIT:
            ids[n] = top + 2
        else:
            ids[n] = top + 3  # would be reported by TLC (unknown node kind in a CFG)
    g = {"nodes": sorted(ids.values()),
         "edges": sorted([ids[u], ids[v], LAB[d.get(cf.EDGE_DATA_BRANCH_VALUE)]]
                         for u, v, d in cfg.graph.edges(data=True)),
         "entry": top + 1, "exit": top + 2}
    ids[cf.ArtificialNode.AUGMENTED_ENTRY] = 0
    return g, ids


def code_object_events(sp, *, src: str, modname: str, cap: int = NODE_CAP) -> tuple[list[dict], int]:
    """One cfg event per registered code object (fresh compute() on the registered CFG)."""
    evs, skipped = [], 0
    for cid, meta in sorted(sp.existing_code_objects.items()):
        g, ids = export_cfg(meta.cfg)
        if len(g["nodes"]) > cap:
            skipped += 1
            continue
        name = f"{modname}:{meta.code_object.co_name}@{meta.code_object.co_firstlineno}"
        try:
            cdg = cf.ControlDependenceGraph.compute(meta.cfg)
        except Exception as ex:  # noqa: BLE001
            evs.append(cfg_event(g, None, ids, src=src, name=name, raised=type(ex).__name__))
            continue
        evs.append(cfg_event(g, cdg, ids, src=src, name=name))
    return evs, skipped


def load_module(modname: str, srcdir: str | Path, to_cover=None):
    from harness.adapters import pyn  # noqa: PLC0415

    try:
        return pyn.load_sut(modname, srcdir, metrics=("BRANCH",), to_cover=to_cover)
    finally:
        sys.modules.pop(modname, None)


STDLIB = ["bisect", "heapq", "textwrap", "shlex", "fnmatch", "colorsys", "keyword", "string",
          "statistics", "copy", "reprlib", "glob", "graphlib", "fractions", "numbers", "stat",
          "queue", "sched", "calendar", "cmd", "difflib", "getopt", "base64", "quopri", "netrc",
          "pprint", "tabnanny", "token"]


def stdlib_copy(name: str, dest: Path) -> str | None:
    """Copy Lib/<name>.py to dest under another module name; None when it is not a plain file."""
    src = Path(sysconfig.get_paths()["stdlib"]) / f"{name}.py"
    if not src.is_file():
        return None
    dest.mkdir(parents=True, exist_ok=True)
    mod = f"c06std_{name}"
    shutil.copyfile(src, dest / f"{mod}.py")
    return mod


# --------------------------------------------------------------------------------------
# generated program corpus
# --------------------------------------------------------------------------------------
HAND = '''
FLAG = 1
if FLAG:
    LIMIT = 3
else:
    LIMIT = 4


def h_inf_if(c):
    while True:
        if c:
            a = 1
        else:
            a = 2
        c = a


def h_inf_if_then(c, d):
    while True:
        if c:
            a = 1
        else:
            a = 2
        if d:
            c = a


def h_inf_nested(x):
    while True:
        while True:
            x += 1


def h_inf_break(x):
    while True:
        x += 1
        if x > 10:
            break
    return x


def h_gen(n):
    for i in range(n):
        x = yield i
        if x:
            break
    else:
        yield -1


def h_gen_cond(x):
    while x:
        x = yield x
    return 0


def h_yield_from(xs):
    r = yield from xs
    if r:
        yield r


def h_try(x):
    try:
        if x:
            return 1
        y = 1 / x
    except ZeroDivisionError:
        y = 0
    finally:
        x = 3
    return y


def h_try_else(x):
    try:
        y = int(x)
    except (ValueError, TypeError) as e:
        y = len(str(e))
    except KeyError:
        raise
    else:
        if y:
            y += 1
    return y


def h_early(x, y):
    if x:
        return 1
    if y:
        return 2
    return 3


def h_for_else(xs, t):
    for x in xs:
        if x == t:
            break
        if x < 0:
            continue
    else:
        return -1
    return x


def h_while_else(n):
    i = 0
    while i < n:
        if i == 7:
            break
        i += 1
    else:
        i = -i
    return i


def h_with(p, x):
    with open(p) as f:
        if x:
            return f.read()
    return None


def h_match(v):
    match v:
        case 0:
            return "zero"
        case [a, b] if a > b:
            return "pair"
        case {"k": w}:
            return w
        case str() | bytes():
            return "s"
        case _:
            return None


def h_bool(a, b, c):
    if a and (b or not c):
        return 1
    return 2 if a else 3


def h_chain(x):
    if 0 < x < 10 <= 2 * x:
        x = -x
    assert x != 5, "five"
    return x


def h_comp(xs):
    ys = [x for x in xs if x > 0]
    zs = {x: y for x in xs for y in ys if x != y}
    return sum(v for v in zs.values() if v), (lambda q: q if q else 0)(len(ys))


def h_nested(x):
    def inner(y):
        if y > x:
            return y
        return x

    class K:
        def m(self, z):
            while z:
                z -= 1
            return inner(z)

    return K().m(x)


def h_is_none(x, y):
    if x is None:
        return 0
    if y is not None:
        return 1
    return 2


async def h_async(xs, cm):
    async with cm as c:
        async for x in xs:
            if x:
                await c(x)
    return 0


def h_dead(x):
    if x:
        return 1
    else:
        return 2
    x = 3
    return x


def h_dead_handler(x):
    try:
        pass
    except KeyError:      # CPython keeps the (unreachable) handler blocks: dead-code filter
        x = 1
    return x


def h_raise(x):
    if x:
        raise ValueError(x)
    try:
        raise KeyError(x)
    finally:
        x = 1


def h_while_try(xs):
    while xs:
        try:
            x = xs.pop()
            if x:
                continue
        except IndexError:
            break
        finally:
            xs = xs[:-1]
    return xs
'''


# A module whose function keeps a dead cycle in its bytecode (CPython does not remove the handler of
# a try body that cannot raise, nor the loop that is only reachable through it).
HAND_DEAD = '''
def d_ok(x):
    if x:
        return 1
    return 2


def d_dead_cycle(x, y):
    while True:
        try:
            pass
        except KeyError:
            break
    while True:
        y = 2
'''


class ProgGen:
    """Random structured programs.  Every compound statement header is a candidate line for an
    exclusion marker; `lines` collects the 1-based line numbers of such headers."""

    SIMPLE = ["x = x + 1", "y = x * 2", "z = [x, y]", "x, y = y, x", "y = g(x)", "pass"]
    CONDS = ["x > {k}", "x == y", "x", "not y", "x is None", "y is not None", "x in z",
             "x and y", "x or y > {k}", "0 < x < {k}", "isinstance(x, int)", "len(z) > {k}"]

    def __init__(self, rng, depth: int = 3):
        self.rng = rng
        self.depth = depth
        self.out: list[str] = []
        self.headers: list[int] = []
        self.names: list[str] = []

    def emit(self, ind: int, text: str, header: bool = False) -> None:
        self.out.append("    " * ind + text)
        if header:
            self.headers.append(len(self.out))

    def cond(self) -> str:
        return self.rng.choice(self.CONDS).format(k=self.rng.randint(0, 9))

    def body(self, ind: int, depth: int, *, loop: bool, gen: bool, n: int | None = None) -> None:
        n = n if n is not None else self.rng.randint(1, 3)
        for i in range(n):
            last = i == n - 1
            self.stmt(ind, depth, loop=loop, gen=gen, last=last)

    def stmt(self, ind: int, depth: int, *, loop: bool, gen: bool, last: bool) -> None:  # noqa: C901, PLR0912, PLR0915
        r = self.rng
        kinds = ["simple", "simple"]
        if depth > 0:
            kinds += ["if", "if", "ifelse", "elif", "while", "for", "try", "tryfin", "with", "match",
                      "whiletrue", "ternary", "comp", "assert"]
        if last:
            kinds += ["return", "raise"]
            if loop:
                kinds += ["break", "continue"]
        if gen:
            kinds += ["yield"]
        k = r.choice(kinds)
        d = depth - 1
        if k == "simple":
            self.emit(ind, r.choice(self.SIMPLE))
        elif k == "ternary":
            self.emit(ind, f"y = x if {self.cond()} else y")
        elif k == "comp":
            self.emit(ind, r.choice(["z = [i for i in range(x) if i % 2]",
                                     "y = sum(i for i in z if i)",
                                     "z = {i: j for i in z for j in z if i != j}"]))
        elif k == "assert":
            self.emit(ind, f"assert {self.cond()}")
        elif k == "yield":
            self.emit(ind, r.choice(["x = yield y", "yield x", "yield from z"]))
        elif k == "return":
            self.emit(ind, r.choice(["return x", "return", "return y if x else z"]))
        elif k == "raise":
            self.emit(ind, "raise ValueError(x)")
        elif k in ("break", "continue"):
            self.emit(ind, k)
        elif k in ("if", "ifelse", "elif"):
            self.emit(ind, f"if {self.cond()}:", header=True)
            self.body(ind + 1, d, loop=loop, gen=gen)
            if k == "elif":
                self.emit(ind, f"elif {self.cond()}:", header=True)
                self.body(ind + 1, d, loop=loop, gen=gen)
            if k != "if" or r.random() < 0.2:
                self.emit(ind, "else:", header=True)
                self.body(ind + 1, d, loop=loop, gen=gen)
        elif k == "while":
            self.emit(ind, f"while {self.cond()}:", header=True)
            self.body(ind + 1, d, loop=True, gen=gen)
            if r.random() < 0.3:
                self.emit(ind, "else:", header=True)
                self.body(ind + 1, d, loop=loop, gen=gen)
        elif k == "whiletrue":
            self.emit(ind, "while True:", header=True)
            self.body(ind + 1, d, loop=True, gen=gen)
        elif k == "for":
            self.emit(ind, r.choice(["for i in range(x):", "for x in z:", "for i, j in z:"]), header=True)
            self.body(ind + 1, d, loop=True, gen=gen)
            if r.random() < 0.3:
                self.emit(ind, "else:", header=True)
                self.body(ind + 1, d, loop=loop, gen=gen)
        elif k in ("try", "tryfin"):
            self.emit(ind, "try:", header=True)
            self.body(ind + 1, d, loop=loop, gen=gen)
            if k == "try" or r.random() < 0.5:
                self.emit(ind, r.choice(["except ValueError:", "except (KeyError, TypeError) as e:",
                                         "except Exception:"]), header=True)
                self.body(ind + 1, d, loop=loop, gen=gen)
                if r.random() < 0.3:
                    self.emit(ind, "except OSError:", header=True)
                    self.body(ind + 1, d, loop=loop, gen=gen)
                if r.random() < 0.3:
                    self.emit(ind, "else:", header=True)
                    self.body(ind + 1, d, loop=loop, gen=gen)
                if k == "tryfin":
                    self.emit(ind, "finally:", header=True)
                    self.body(ind + 1, d, loop=False, gen=gen, n=1)
            else:
                self.emit(ind, "finally:", header=True)
                self.body(ind + 1, d, loop=False, gen=gen, n=1)
        elif k == "with":
            self.emit(ind, "with g(x) as y:", header=True)
            self.body(ind + 1, d, loop=loop, gen=gen)
        elif k == "match":
            self.emit(ind, "match x:", header=True)
            for pat in r.sample(["case 0:", "case [a, b]:", "case {'k': y}:", "case int() if y:",
                                 "case 1 | 2:"], r.randint(1, 3)):
                self.emit(ind + 1, pat, header=True)
                self.body(ind + 2, d, loop=loop, gen=gen, n=1)
            if r.random() < 0.6:
                self.emit(ind + 1, "case _:", header=True)
                self.body(ind + 2, d, loop=loop, gen=gen, n=1)

    def function(self, name: str, ind: int = 0, scope: str = "") -> None:
        gen = self.rng.random() < 0.2
        self.emit(ind, f"def {name}(x, y=0, z=()):", header=True)
        self.names.append(f"{scope}{name}")
        if self.rng.random() < 0.15:
            self.emit(ind + 1, "def inner(x, y=1, z=()):", header=True)
            self.names.append(f"{scope}{name}.inner")
            self.body(ind + 2, 1, loop=False, gen=False)
        self.body(ind + 1, self.depth, loop=False, gen=gen, n=self.rng.randint(1, 4))
        self.emit(ind + 1, "return x")
        self.emit(0, "")

    def module(self, nfuncs: int) -> str:
        self.emit(0, "def g(x):")
        self.emit(1, "return x")
        self.emit(0, "")
        for i in range(nfuncs):
            if self.rng.random() < 0.2:
                self.emit(0, f"class K{i}:", header=True)
                self.names.append(f"K{i}")
                self.function(f"m{i}", 1, scope=f"K{i}.")
            else:
                self.function(f"f{i}")
        return "\n".join(self.out) + "\n"


def with_markers(src: str, lines: list[int], marker: str) -> str:
    out = src.splitlines()
    for ln in lines:
        out[ln - 1] = out[ln - 1] + "  # " + marker
    return "\n".join(out) + "\n"


# --------------------------------------------------------------------------------------
# C07: the real goal graph and the real goals manager
# --------------------------------------------------------------------------------------
class _Executor:
    """What BranchCoverageTestFitness needs from an executor at construction time."""

    def __init__(self, sp):
        self.subject_properties = sp


def fitness_functions(sp) -> OrderedSet:
    pool = bg.BranchGoalPool(sp)
    return bg.create_branch_coverage_fitness_functions(_Executor(sp), pool)


def goal_key(ff) -> list:
    goal = ff.goal
    if goal.is_branchless_code_object:
        return ["c", goal.code_object_id, 0, "N"]
    return ["b", goal.code_object_id, goal.predicate_id, LAB[goal.value]]


def export_goal_structures(sp, name: str, cap: int = 60) -> tuple[dict, object, list]:
    """Build the real _BranchFitnessGraph exactly like _GoalsManager does and export it together
    with the predicate registry and the registered (covered) CDG of every code object."""
    ffs = fitness_functions(sp)
    order = list(ffs)
    gid = {f: i + 1 for i, f in enumerate(order)}
    ev = {"kind": "goals", "name": name, "built": True, "err": "",
          "goals": [[gid[f], *goal_key(f)] for f in order], "roots": [], "gedges": [], "cos": [],
          "toobig": False}
    graph = None
    try:
        graph = dyn._BranchFitnessGraph(ffs, sp)  # noqa: SLF001
    except Exception as ex:  # noqa: BLE001  (recorded; TLC clause BuildSucceeds)
        ev["built"] = False
        ev["err"] = f"{type(ex).__name__}: {ex}"[:200]
    if graph is not None:
        ev["roots"] = sorted(gid[f] for f in graph.root_branches)
        ev["gedges"] = sorted([gid[u], gid[v]] for u, v in graph._graph.edges)  # noqa: SLF001
    for cid, meta in sorted(sp.existing_code_objects.items()):
        ids = {n: (n.index + 1) for n in meta.cdg.graph.nodes if isinstance(n, cf.BasicBlockNode)}
        ids[cf.ArtificialNode.AUGMENTED_ENTRY] = 0
        unknown = [n for n in meta.cdg.graph.nodes if n not in ids]
        for j, n in enumerate(unknown):
            ids[n] = 10_000 + j
        if len(ids) > cap:
            ev["toobig"] = True
        preds = sorted([pid, pm.node.index + 1] for pid, pm in sp.existing_predicates.items()
                       if pm.code_object_id == cid)
        ev["cos"].append({"cid": cid, "nodes": sorted(ids.values()),
                          "cdg": export_cdg(meta.cdg, ids), "preds": preds,
                          "branchless": cid in sp.branch_less_code_objects})
    return ev, graph, order


class StubSolution:
    """A chromosome whose coverage answers are dictated by the behaviour."""

    def __init__(self, covers: set, size: int = 1):
        self._covers = covers
        self._size = size

    def get_is_covered(self, objective) -> bool:
        return objective in self._covers

    def get_fitness_for(self, objective) -> float:
        return 0.0 if objective in self._covers else 1.0

    def get_last_execution_result(self):
        return None

    def size(self) -> int:
        return self._size


def step_goals_manager(sp, order: list, covers: list[list[int]]) -> dict:
    """Real _GoalsManager driven by a coverage order (lists of goal ids covered per update)."""
    gid = {f: i + 1 for i, f in enumerate(order)}
    archive = CoverageArchive(OrderedSet())
    mgr = dyn._GoalsManager(OrderedSet(order), archive, sp)  # noqa: SLF001

    def snap(cover):
        return {"cover": sorted(cover), "cur": sorted(gid[f] for f in mgr.current_goals),
                "cov": sorted(gid[f] for f in archive.covered_goals),
                "objs": sorted(gid[f] for f in archive.objectives)}

    evs = [snap([])]
    for cover in covers:
        sols = [StubSolution({order[g - 1]}) for g in cover]
        mgr.update(sols)
        evs.append(snap(cover))
    return {"ev": evs}


def to_cover(no_cover=(), only_cover=(), pragma=True, pynguin=True):
    return config.ToCoverConfiguration(no_cover=list(no_cover), only_cover=list(only_cover),
                                       enable_inline_pragma_no_cover=pragma,
                                       enable_inline_pynguin_no_cover=pynguin)

"""Driver: run a real pynguin search (CLI entry point) and record, after every iteration, what every
fitness / coverage / goal function returns on the best suite (harness.adapters.fitness.search_events).

usage: python -m harness.adapters.fitness_search OUT.json <pynguin cli arguments...>
"""

from __future__ import annotations

import json
import sys
import traceback


def main() -> int:
    out, argv = sys.argv[1], sys.argv[2:]
    import pynguin.ga.algorithms.generationalgorithm as ga

    from harness.adapters import fitness as ad

    record = {"iterations": 0, "events": [], "errors": []}
    original = ga.GenerationAlgorithm.after_search_iteration

    def hook(self, best):
        record["iterations"] += 1
        try:
            record["events"] += ad.search_events(self, best)
        except Exception:  # noqa: BLE001 - the harness must not change the search
            record["errors"].append(traceback.format_exc()[-1500:])
        with open(out, "w") as f:
            json.dump(record, f)
        return original(self, best)

    ga.GenerationAlgorithm.after_search_iteration = hook
    import pynguin.cli

    rc = pynguin.cli.main(["pynguin", *argv])
    record["rc"] = int(rc)
    with open(out, "w") as f:
        json.dump(record, f)
    return 0


if __name__ == "__main__":
    sys.exit(main())

"""Run the idiom corpus uninstrumented and instrumented (one forked child per function x metric
subset, so that interpreter crashes are survivable) and compare behaviour (C01)."""

from __future__ import annotations

import importlib
import multiprocessing as mp
import sys
from pathlib import Path

SUT_DIR = str(Path(__file__).resolve().parent.parent / "sut")
INPUTS = [0, 1, 2, 3, 5, 6, 7, 12]


def split(workdir) -> str:
    """One module per idiom function (shared header: imports, helper classes), so that a construct
    that cannot be instrumented only fails its own function."""
    import ast  # noqa: PLC0415

    src = (Path(SUT_DIR) / "idioms.py").read_text()
    tree = ast.parse(src)
    header, funcs = [], {}
    for node in tree.body:
        seg = ast.get_source_segment(src, node)
        if isinstance(node, ast.FunctionDef) and node.name.startswith("i_"):
            funcs[node.name] = seg
        elif not (isinstance(node, ast.Assign) and getattr(node.targets[0], "id", "") == "FUNCS"):
            header.append(seg)
    d = Path(workdir)
    d.mkdir(parents=True, exist_ok=True)
    for name, seg in funcs.items():
        (d / f"idm_{name}.py").write_text("\n\n".join(header) + "\n\n\n" + seg + "\n")
    return str(d)


def split_stdlib(workdir, quick: bool) -> list[str]:
    """Copies of pure-Python standard library modules with a driver function appended
    (harness/sut/stdlib_drivers.py); returns the names of the driver functions."""
    import sysconfig  # noqa: PLC0415

    if SUT_DIR not in sys.path:
        sys.path.insert(0, SUT_DIR)
    import stdlib_drivers  # noqa: PLC0415

    lib = Path(sysconfig.get_paths()["stdlib"])
    d = Path(workdir)
    d.mkdir(parents=True, exist_ok=True)
    names = []
    for mod in (stdlib_drivers.QUICK if quick else sorted(stdlib_drivers.DRIVERS)):
        src = lib / f"{mod}.py"
        if not src.exists():
            continue
        exprs = stdlib_drivers.DRIVERS[mod]
        name = f"stdlib_{mod.lstrip('_')}"
        driver = (f"\n\ndef {name}(x, log):\n    _exprs = {exprs!r}\n"
                  f"    return eval(_exprs[{INPUTS!r}.index(x) % len(_exprs)])\n")
        (d / f"idm_{name}.py").write_text(src.read_text() + driver)
        names.append(name)
    return names


def _observe(fn, x):
    log: list = []
    try:
        r = fn(x, log)
        return ["ret", repr(r), [repr(v) for v in log]]
    except BaseException as ex:  # noqa: BLE001
        return ["exc", type(ex).__name__, [repr(v) for v in log]]


def baseline() -> dict:
    if SUT_DIR not in sys.path:
        sys.path.insert(0, SUT_DIR)
    sys.modules.pop("idioms", None)
    mod = importlib.import_module("idioms")
    out = {name: [_observe(getattr(mod, name), x) for x in INPUTS] for name in mod.FUNCS}
    sys.modules.pop("idioms", None)
    return out


def _child(conn, name, metrics, moddir=None):
    import logging  # noqa: PLC0415

    logging.disable(logging.CRITICAL)
    try:
        from harness.adapters import pyn  # noqa: PLC0415

        sp, mod = pyn.load_sut(f"idm_{name}" if moddir else "idioms", moddir or SUT_DIR, metrics=metrics)
        tracer = sp.instrumentation_tracer
        res = []
        with tracer:
            tracer.init_trace()
            for x in INPUTS:
                res.append(_observe(getattr(mod, name), x))
        conn.send({"ok": True, "obs": res})
    except BaseException as ex:  # noqa: BLE001
        conn.send({"ok": False, "error": f"{type(ex).__name__}: {ex}"[:300]})
    finally:
        conn.close()


def instrumented(args) -> dict:
    name, metrics, *rest = args
    ctxm = mp.get_context("fork")
    a, b = ctxm.Pipe(duplex=False)
    p = ctxm.Process(target=_child, args=(b, name, metrics, rest[0] if rest else None))
    p.start()
    b.close()
    try:
        out = a.recv() if a.poll(60) else {"ok": False, "error": "timeout"}
    except EOFError:
        out = {"ok": False, "error": "child died"}
    p.join(5)
    if p.is_alive():
        p.kill()
        p.join(2)
    if not out.get("ok") and out.get("error") == "child died":
        out["error"] = f"child died (exit code {p.exitcode})"
    return out


def _child_all(conn, names, metrics, moddir):
    import logging  # noqa: PLC0415

    logging.disable(logging.CRITICAL)
    from harness.adapters import pyn  # noqa: PLC0415

    try:
        for name in names:
            try:
                sp, mod = pyn.load_sut(f"idm_{name}", moddir, metrics=metrics)
            except Exception as ex:  # noqa: BLE001
                conn.send((name, {"ok": False, "error": f"{type(ex).__name__}: {ex}"[:300]}))
                continue
            tracer = sp.instrumentation_tracer
            with tracer:
                tracer.init_trace()
                conn.send((name, {"ok": True, "obs": [_observe(getattr(mod, name), x) for x in INPUTS]}))
    finally:
        conn.close()


def instrumented_all(args) -> dict:
    """All functions under one metric combination in one child; whatever the child did not deliver
    (it crashed or hung) is repeated with one child per function."""
    names, metrics, moddir = args
    ctxm = mp.get_context("fork")
    a, b = ctxm.Pipe(duplex=False)
    p = ctxm.Process(target=_child_all, args=(b, names, metrics, moddir))
    p.start()
    b.close()
    out: dict = {}
    try:
        while len(out) < len(names) and a.poll(60):
            name, r = a.recv()
            out[name] = r
    except EOFError:
        pass
    p.join(5)
    if p.is_alive():
        p.kill()
        p.join(2)
    for name in names:
        if name not in out:
            out[name] = instrumented((name, metrics, moddir))
    return out

"""PyMiniData adapter (C09): render a program of spec/PyMiniData.tla to a SUT module, run it
uninstrumented under sys.monitoring (interpreter-level ground truth: lines executed by the import
and by the call), and run the test case `var_0 = f(a, b)` with the REAL executor under CHECKED
instrumentation exactly as Pynguin does for

* statement checked coverage: `RemoteStatementSlicingObserver` (its real
  `compute_statement_checked_lines` is wrapped only to read the slicing criteria it was given), and
* assertion checked coverage: `RemoteAssertionExecutionObserver` +
  `compute_assertion_checked_coverage`,

and project what each reports: checked lines, the instructions of the slice (file, line), the lines
of the trace's executed instructions, the slicing criterion."""

from __future__ import annotations

import importlib
import sys
from pathlib import Path

# ---- the fixed part of the module (mirror of PyMiniData.tla: ModLine, Helpers, HelperBody, ClassFields) ----
def _inc(x, y, c):
    return {"t": "inc", "x": x, "y": y, "c": c}


def _if(cv, a, b):
    return {"t": "if", "cv": cv, "a": a, "b": b}


HELPERS = [   # (name, index i of the paths (9, i, ...), parameter, path of the def line, body)
    ("h", 1, "x", (8, 3), [_inc("y", "x", 1), {"t": "ret", "x": "y"}]),
    ("g", 2, "y", (8, 4), [_if("y", [{"t": "retb", "y": "y", "z": "G"}], []), {"t": "retc", "c": 0}]),
    ("k", 3, "x", (8, 8), [_inc("y", "x", -1),
                           _if("y", [{"t": "const", "x": "x", "c": 2}], [{"t": "const", "x": "x", "c": 1}]),
                           {"t": "ret", "x": "x"}]),
    ("m", 4, "y", (8, 9), [_inc("x", "y", 1),
                           {"t": "for", "k": 2, "a": [_if("y", [_inc("x", "x", 1)], []), {"t": "dec", "x": "y"}]},
                           {"t": "ret", "x": "x"}]),
    ("s", 5, "x", (8, 11), [_inc("G", "x", 1)]),      # assigns the global (rendered with `global G`)
]
MODULE_KINDS = {(8, 1): "modG", (8, 2): "modBox", (8, 3): "modH", (8, 4): "modG_", (8, 5): "modF",
                (8, 6): "clsattr", (8, 7): "clsuattr", (8, 8): "modK", (8, 9): "modM", (8, 10): "clstail", (8, 11): "modS"}
BOX_VARS = ("o", "p")
ATTR_NAMES = ("q0", "q1", "_q2", "c3", "_c4")      # c3, _c4: class level (values 2, 3)
INNER_PARAM = "z"


def _target(o: str, f: int) -> str:
    if o in BOX_VARS:
        return f"{o}.{ATTR_NAMES[f]}"
    if o == "l":
        return f"l[{f}]"
    return f'd["k{f}"]'


def render(prog: list) -> tuple[str, dict, dict]:
    """-> (source, line_of: path tuple -> line number, kind_of: path tuple -> statement kind).
    Kinds of the lines of a helper / an inner function are prefixed with its name (`k.if`, `r.retb`)."""
    lines: list[str] = []
    line_of: dict[tuple, int] = {}
    kind_of: dict[tuple, str] = {}

    def emit(text: str, ind: int, path: tuple | None, kind: str = "") -> None:
        lines.append("    " * ind + text)
        if path is not None:
            line_of[path] = len(lines)
            kind_of[path] = kind

    def block(blk: list, p: tuple, tag: int, ind: int, pre: str = "") -> None:
        for i, s in enumerate(blk, start=1):
            stmt(s, p + (tag, i), ind, pre)

    def stmt(s: dict, p: tuple, ind: int, pre: str) -> None:
        t = s["t"]
        if t == "const":
            emit(f"{s['x']} = {s['c']}", ind, p, pre + "const")
        elif t == "bin":
            emit(f"{s['x']} = {s['y']} {'*' if s['op'] == 'mul' else '+'} {s['z']}", ind, p, pre + "bin")
        elif t == "inc":
            emit(f"{s['x']} = {s['y']} {'-' if s['c'] < 0 else '+'} {abs(s['c'])}", ind, p, pre + "inc")
        elif t == "copy":
            kind = "gstore" if s["x"] == "G" else "gload" if s["y"] == "G" else "alias" if s["x"] in BOX_VARS else "copy"
            emit(f"{s['x']} = {s['y']}", ind, p, pre + kind)
        elif t == "call":
            emit(f"{s['x']} = {s['fn']}({s['y']})", ind, p, pre + "call" + s["fn"].upper())
        elif t == "do":
            emit(f"{s['fn']}({s['y']})", ind, p, pre + "do" + s["fn"].upper())
        elif t == "defr":      # a closure that reads the local v of the enclosing function
            emit(f"def r({INNER_PARAM}):", ind, p, pre + "defr")
            emit(f"return {s['v']} + {INNER_PARAM}", ind + 1, p + (3, 1), "r.retb")
        elif t == "defw":      # a closure that writes it
            emit(f"def w({INNER_PARAM}):", ind, p, pre + "defw")
            emit(f"nonlocal {s['v']}", ind + 1, None)
            emit(f"{s['v']} = {INNER_PARAM} + 1", ind + 1, p + (3, 1), "w.inc")
        elif t == "new":
            emit(f"{s['x']} = Box()", ind, p, pre + "new")
        elif t == "mk":
            if s["kd"] == "list":
                emit(f"{s['x']} = [{s['y']}, 0]", ind, p, pre + "mklist")
            else:
                emit(f"{s['x']} = {{\"k0\": {s['y']}}}", ind, p, pre + "mkdict")
        elif t == "store":
            kind = "astore" if s["o"] in BOX_VARS else "lstore" if s["o"] == "l" else "dstore"
            emit(f"{_target(s['o'], s['f'])} = {s['y']}", ind, p, pre + kind)
        elif t == "load":
            kind = "aload" if s["o"] in BOX_VARS else "lload" if s["o"] == "l" else "dload"
            emit(f"{s['x']} = {_target(s['o'], s['f'])}", ind, p, pre + kind)
        elif t == "if":
            emit(f"if {s['cv']}:", ind, p, pre + "if")
            block(s["a"], p, 1, ind + 1, pre)
            if s["b"]:
                emit("else:", ind, None)
                block(s["b"], p, 2, ind + 1, pre)
        elif t == "for":
            emit(f"for _i in range({s['k']}):", ind, p, pre + "for")
            block(s["a"], p, 1, ind + 1, pre)
        elif t == "while":
            emit(f"while {s['cv']}:", ind, p, pre + "while")
            block(s["a"], p, 1, ind + 1, pre)
        elif t == "dec":
            emit(f"{s['x']} = {s['x']} - 1", ind, p, pre + "dec")
        elif t == "ret":
            emit(f"return {s['x']}", ind, p, pre + "ret")
        elif t == "retb":
            emit(f"return {s['y']} + {s['z']}", ind, p, pre + "retb")
        elif t == "retc":
            emit(f"return {s['c']}", ind, p, pre + "retc")
        else:
            raise ValueError(t)

    def gap() -> None:
        emit("", 0, None)
        emit("", 0, None)

    emit("G = 0", 0, (8, 1), MODULE_KINDS[8, 1])
    gap()
    emit("class Box:", 0, (8, 2), MODULE_KINDS[8, 2])
    emit(f"{ATTR_NAMES[3]} = 2", 1, (8, 6), MODULE_KINDS[8, 6])
    emit(f"{ATTR_NAMES[4]} = 3", 1, (8, 7), MODULE_KINDS[8, 7])
    emit("c5 = 0", 1, (8, 10), MODULE_KINDS[8, 10])    # never read (the last line of a class body carries its return)
    gap()
    for name, idx, param, defpath, body in HELPERS:
        emit(f"def {name}({param}):", 0, defpath, MODULE_KINDS[defpath])
        if name == "s":
            emit("global G", 1, None)
        block(body, (9, idx), 0, 1, name + ".")
        gap()
    emit("def f(a, b):", 0, (8, 5), MODULE_KINDS[8, 5])
    emit("global G", 1, None)
    block(prog, (), 0, 1)
    return "\n".join(lines) + "\n", line_of, kind_of


def ground_truth(mod_name: str, src_dir: str, a: int, b: int) -> dict:
    """Import the UNINSTRUMENTED module and call f(a, b) under sys.monitoring LINE events of every code
    object of the module's file: lines executed by the import, lines executed by the call."""
    if src_dir not in sys.path:
        sys.path.insert(0, src_dir)
    sys.modules.pop(mod_name, None)
    importlib.invalidate_caches()
    fname = str(Path(src_dir) / f"{mod_name}.py")
    mon = sys.monitoring
    tool = 4
    try:
        mon.use_tool_id(tool, "verif-pymini-data")
    except ValueError:
        pass
    cur: set[int] = set()
    budget = [20000]

    def on_line(code, line):
        if code.co_filename == fname:
            cur.add(line)
            budget[0] -= 1
            if budget[0] < 0:
                raise TimeoutError("line budget exhausted")   # a program that does not terminate is not a case
            return None
        return mon.DISABLE

    mon.register_callback(tool, mon.events.LINE, on_line)
    mon.set_events(tool, mon.events.LINE)
    res = {"ret": None, "exc": ""}
    try:
        mod = importlib.import_module(mod_name)
        import_lines = set(cur)
        cur.clear()
        try:
            res["ret"] = mod.f(a, b)
        except BaseException as ex:  # noqa: BLE001
            res["exc"] = type(ex).__name__
        call_lines = set(cur)
    finally:
        mon.set_events(tool, 0)
        mon.register_callback(tool, mon.events.LINE, None)
        mon.free_tool_id(tool)
        mon.restart_events()
    sys.modules.pop(mod_name, None)
    return {"import_lines": sorted(import_lines), "call_lines": sorted(call_lines), **res}


def _instr_proj(instrs, fname: str) -> list:
    """[[file tag, line]] of slice instructions: 1 = the SUT file, 0 = test code (<ast>), 2 = other."""
    from pynguin.instrumentation import AST_FILENAME  # noqa: PLC0415

    out = []
    for i in instrs:
        tag = 1 if i.file == fname else 0 if i.file == AST_FILENAME else 2
        ln = i.lineno if isinstance(i.lineno, int) else -1
        if [tag, ln] not in out:
            out.append([tag, ln])
    return sorted(out)


def _same_instr(unique, executed) -> bool:
    return (unique.code_object_id == executed.code_object_id and unique.node_id == executed.node_id
            and unique.instr_original_index == executed.instr_original_index and unique.name == executed.name)


def _trace_lines(trace, fname: str) -> list[int]:
    return sorted({i.lineno for i in trace.executed_instructions if i.file == fname and isinstance(i.lineno, int)})


def load(mod_name: str, src_dir: str):
    """Import the module through Pynguin's real import hook with the CHECKED metric (generator._load_sut)."""
    from harness.adapters import pyn  # noqa: PLC0415

    return pyn.load_sut(mod_name, src_dir, metrics=("CHECKED",))


def statement_variant(sp, fname: str, a: int, b: int, timeout: float = 60.0) -> dict:
    """Statement checked coverage exactly as generator._run wires it: CHECKED metric, executor with the
    real RemoteStatementSlicingObserver.  compute_statement_checked_lines and
    DynamicSlicer.map_instructions_to_lines are wrapped (and delegate to the real ones) only to read the
    criteria the observer recorded and the slice the slicer returned."""
    from harness.adapters import pyn  # noqa: PLC0415
    import pynguin.slicer.statementslicingobserver as sso  # noqa: PLC0415
    from pynguin.slicer.dynamicslicer import DynamicSlicer  # noqa: PLC0415

    ex = pyn.make_executor(sp, timeout=timeout)
    ex.add_remote_observer(sso.RemoteStatementSlicingObserver())
    seen: dict = {"slices": []}
    real = sso.compute_statement_checked_lines
    real_map = DynamicSlicer.map_instructions_to_lines

    def spy(statements, trace, subject_properties, criteria):
        seen["criteria"] = dict(criteria)
        out = real(statements, trace, subject_properties, criteria)
        seen["returned"] = set(out)
        return out

    def spy_map(instructions, subject_properties):
        seen["slices"].append(list(instructions))
        return real_map(instructions, subject_properties)

    sso.compute_statement_checked_lines = spy
    DynamicSlicer.map_instructions_to_lines = staticmethod(spy_map)
    try:
        result = ex.execute(pyn.make_test([f"var_0 = f({a}, {b})"]))
    finally:
        sso.compute_statement_checked_lines = real
        DynamicSlicer.map_instructions_to_lines = staticmethod(real_map)
    trace = result.execution_trace
    out = {"timeout": bool(result.timeout), "exc": sorted(type(v).__name__ for v in result.exceptions.values()),
           "checked": sorted(sp.lineids_to_linenos(trace.checked_lines)),
           "returned_eq_trace": seen.get("returned", set()) == set(trace.checked_lines),
           "trace_lines": _trace_lines(trace, fname),
           "existing_lines": sorted({m.line_number for m in sp.existing_lines.values()}),
           "has_crit": False, "crit_is_store": False, "crit_in_slice": False, "slice": [], "slice_error": ""}
    crit = seen.get("criteria", {}).get(0)
    if crit is not None and not result.timeout:
        out["has_crit"] = True
        ci = trace.executed_instructions[crit.trace_position]
        out["crit_is_store"] = bool(ci.name == "STORE_NAME" and getattr(ci, "argument", None) == "var_0")
        if len(seen["slices"]) == 1:
            instrs = seen["slices"][0]
            out["slice"] = _instr_proj(instrs, fname)
            out["crit_in_slice"] = any(_same_instr(u, ci) for u in instrs)
        else:
            out["slice_error"] = f"{len(seen['slices'])} slices computed for one statement"
    return out


def assertion_variant(sp, fname: str, a: int, b: int, value: int, timeout: float = 60.0) -> dict:
    """Assertion checked coverage as generator._track_final_metrics wires it: CHECKED metric,
    set_instrument(True), real RemoteAssertionExecutionObserver, compute_assertion_checked_coverage."""
    from harness.adapters import pyn  # noqa: PLC0415
    import pynguin.assertion.assertion as ass  # noqa: PLC0415
    from pynguin.ga.checked_coverage import compute_assertion_checked_coverage  # noqa: PLC0415
    from pynguin.slicer.dynamicslicer import DynamicSlicer  # noqa: PLC0415
    from pynguin.testcase.execution import RemoteAssertionExecutionObserver  # noqa: PLC0415

    ex = pyn.make_executor(sp, timeout=timeout)
    ex.set_instrument(True)
    ex.add_remote_observer(RemoteAssertionExecutionObserver())
    test = pyn.make_test([f"var_0 = f({a}, {b})"])
    assertion = ass.ObjectAssertion("var_0", value)
    test.get_statement(0).assertions.append(assertion)
    result = ex.execute(test)
    trace = result.execution_trace
    out = {"timeout": bool(result.timeout), "exc": sorted(type(v).__name__ for v in result.exceptions.values()),
           "n_assertions": len(trace.executed_assertions), "checked": [], "slice": [], "crit_in_slice": False,
           "cov_num": -1, "n_existing": len(sp.existing_lines), "trace_lines": _trace_lines(trace, fname),
           "slice_error": ""}
    if trace.executed_assertions and not result.timeout:
        try:
            cov = compute_assertion_checked_coverage(trace, sp)
            instrs = list(assertion.checked_instructions)
            out["checked"] = sorted(sp.lineids_to_linenos(DynamicSlicer.map_instructions_to_lines(instrs, sp)))
            out["slice"] = _instr_proj(instrs, fname)
            ci = trace.executed_instructions[trace.executed_assertions[0].trace_position]
            out["crit_in_slice"] = any(_same_instr(u, ci) for u in instrs)
            # coverage = |checked lines| / |existing lines| as an integer numerator
            out["cov_num"] = round(cov * len(sp.existing_lines))
        except BaseException as e:  # noqa: BLE001
            out["slice_error"] = f"{type(e).__name__}: {e}"
    return out


def _paths(ps) -> list:
    return [list(p) for p in ps]


def run_case(args) -> dict:
    """One case = (program, inputs): returns the trace event for PyMiniDataTrace (observations only)."""
    case, workdir, uid = args[:3]
    prog, (a, b) = case["prog"], case["inp"]
    src, line_of, kind_of = render(prog)
    wd = Path(workdir)
    wd.mkdir(parents=True, exist_ok=True)
    mod = f"vpd_{uid}"
    path = wd / f"{mod}.py"
    path.write_text(src)
    ev: dict = {"prog": prog, "a": a, "b": b,
                "lmap": [{"p": list(p), "n": n} for p, n in sorted(line_of.items())],
                "body_lines": sorted(line_of.values()),
                "f_lines": sorted(n for p, n in line_of.items() if p[0] == 0)}
    try:
        gt = ground_truth(mod, str(wd), a, b)
        ev.update({"gt_ok": gt["exc"] == "" and isinstance(gt["ret"], int), "gt_exc": gt["exc"],
                   "gt_ret": gt["ret"] if isinstance(gt["ret"], int) and abs(gt["ret"]) < 2**30 else -99,
                   "gt_import": gt["import_lines"], "gt_call": gt["call_lines"],
                   "gt_exec": sorted(set(gt["import_lines"]) | set(gt["call_lines"]))})
        err = ""
        st = asr = None
        if ev["gt_ok"]:
            try:
                sp, module = load(mod, str(wd))
                st = statement_variant(sp, str(path), a, b)
                # the module is instrumented once for both executions: put the only module state (the global G)
                # back to what the import left (the import trace, which every execution trace starts from, says so)
                module.G = 0
                asr = assertion_variant(sp, str(path), a, b, gt["ret"])
            except BaseException as ex:  # noqa: BLE001
                err = f"{type(ex).__name__}: {ex}"
            sys.modules.pop(mod, None)
        ev["ok"] = st is not None and asr is not None
        ev["error"] = err
        if st is None:
            st = {"timeout": False, "exc": [], "checked": [], "returned_eq_trace": True, "trace_lines": [],
                  "existing_lines": [], "has_crit": False, "crit_is_store": False, "crit_in_slice": False,
                  "slice": [], "slice_error": ""}
        if asr is None:
            asr = {"timeout": False, "exc": [], "n_assertions": 0, "checked": [], "slice": [], "crit_in_slice": False,
                   "cov_num": -1, "n_existing": 0, "trace_lines": [], "slice_error": ""}
        ev.update({
            "st_timeout": st["timeout"], "st_exc": st["exc"], "st_checked": st["checked"],
            "st_returned_eq_trace": st["returned_eq_trace"], "st_trace_lines": st["trace_lines"],
            "st_existing": st["existing_lines"], "st_has_crit": st["has_crit"], "st_crit_is_store": st["crit_is_store"],
            "st_crit_in_slice": st["crit_in_slice"], "st_slice": st["slice"], "st_slice_error": st["slice_error"],
            "as_timeout": asr["timeout"], "as_exc": asr["exc"], "as_n": asr["n_assertions"],
            "as_checked": asr["checked"], "as_slice": asr["slice"], "as_crit_in_slice": asr["crit_in_slice"],
            "as_cov_num": asr["cov_num"], "as_n_existing": asr["n_existing"], "as_trace_lines": asr["trace_lines"],
            "as_slice_error": asr["slice_error"],
        })
    finally:
        path.unlink(missing_ok=True)
    ev["_kinds"] = {",".join(map(str, p)): k for p, k in kind_of.items()}   # harness-side only (signatures)
    return ev

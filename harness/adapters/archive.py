"""Abstract archive action -> real call on pynguin.ga.algorithms.archive; real archive -> view.

P2 (replay): the real CoverageArchive / MIOArchive / MIOPopulation are driven with real
TestCaseChromosome objects (real TestCase of the abstract size, real ExecutionResult with the
abstract timeout / exception) and stub fitness functions whose answers come from the abstract
solution (`fit`).  P1 (observe): CoverageArchive / MIOArchive methods are wrapped at run time in
the harness process and a real search is recorded with the same projection.

Nothing here decides a property: the recorded events go to ArchiveTrace.tla.
"""

from __future__ import annotations

import functools
import math

import libcst as cst

import pynguin.ga.computations as ff
import pynguin.ga.testcasechromosome as tcc
import pynguin.testcase.testcase as tc
from pynguin.ga.algorithms import archive as arch
from pynguin.testcase.execution_result import ExecutionResult
from pynguin.utils import randomness
from pynguin.utils.orderedset import OrderedSet

HONE = 1000000  # ArchiveOps!HOne
Z, T = HONE + 1, HONE  # fitness classes: Z fitness 0.0; T fitness > 0 with 1.0 - normalise(f) == 1.0
# fitness class -> fitness value returned by the stub fitness function (2: h = 0.5, 1: h = 0.25;
# 0: only for a bare MIOPopulation: h = 0.0)
FITVAL = {Z: 0.0, T: 1e-20, 2: 1.0, 1: 3.0}
H_OF_CLASS = {0: 0.0, 1: 0.25, 2: 0.5, T: 1.0, Z: 1.0}
H_RANK = {0.0: 0, 0.25: 1, 0.5: 2, 1.0: HONE}

NOSOL = {"id": 0, "size": 0, "res": "none", "covers": []}


@functools.lru_cache(maxsize=None)
def _node(code: str):
    return cst.parse_statement(code)


class GoalFitness(ff.TestCaseFitnessFunction):
    """Stub fitness function of goal g: answers from the abstract solution of the individual."""

    def __init__(self, g: int, registry: dict[int, dict]):
        super().__init__(None, 0)
        self.g = g
        self._registry = registry

    def _abs(self, individual) -> dict:
        return self._registry[sol_id(individual)]

    def compute_fitness(self, individual) -> float:
        return FITVAL[self._abs(individual)["fit"][self.g - 1]]

    def compute_is_covered(self, individual) -> bool:
        return self._abs(individual)["fit"][self.g - 1] == Z

    def is_maximisation_function(self) -> bool:
        return False

    def __repr__(self) -> str:
        return f"G{self.g}"


def sol_id(chromosome) -> int:
    """The abstract id is carried by the first statement (survives clone() and chop())."""
    return int(chromosome.test_case.get_statement(0).bound_variable[4:])


def make_chromosome(sol: dict, goals: list[GoalFitness]) -> tcc.TestCaseChromosome:
    t = tc.TestCase()
    sid = sol["id"]
    t.add_statement(tc.Statement(node=_node(f"sol_{sid} = 0"), bound_variable=f"sol_{sid}",
                                 bound_type=int))
    for i in range(1, sol["size"]):
        t.add_statement(tc.Statement(node=_node(f"var_{i} = {i}"), bound_variable=f"var_{i}",
                                     bound_type=int))
    ch = tcc.TestCaseChromosome(t)
    for g in goals:
        ch.add_fitness_function(g)
    res = sol["res"]
    if res != "none":
        r = ExecutionResult(timeout=(res == "to"))
        if res == "exc":
            r.report_new_thrown_exception(sol["epos"], ValueError("abstract"))
        ch.set_last_execution_result(r)
        ch.changed = False
    return ch


def res_kind(chromosome) -> str:
    r = chromosome.get_last_execution_result()
    if r is None:
        return "none"
    if r.timeout:
        return "to"
    if r.has_test_exceptions():
        return "exc"
    return "ok"


def proj_sol(chromosome, goals, ident) -> dict:
    """Archived chromosome -> observed [id, size, res, covers]; goals = [(index, fitness fn)]."""
    return {"id": ident(chromosome), "size": chromosome.size(), "res": res_kind(chromosome),
            "covers": [i for i, g in goals if chromosome.get_is_covered(g)]}


def proj_pop(pop: arch.MIOPopulation, goals, ident, hrank) -> dict:
    return {"cap": pop._capacity, "counter": pop.counter, "covd": bool(pop.is_covered),
            "sols": [{"h": hrank(p.h), "sol": proj_sol(p.test_case_chromosome, goals, ident)}
                     for p in pop._solutions]}


def proj_cov(a: arch.CoverageArchive, goals, ident) -> dict:
    idx = {g: i for i, g in goals}
    covered = a._covered
    return {"objs": [idx[g] for g in a.objectives],
            "unc": sorted(idx[g] for g in a.uncovered_goals),
            "cov": [proj_sol(covered[g], goals, ident) if g in covered else dict(NOSOL)
                    for _, g in goals],
            "pops": []}


def proj_mio(a: arch.MIOArchive, goals, ident, hrank) -> dict:
    return {"objs": [], "unc": [], "cov": [],
            "pops": [proj_pop(a._archive[g], goals, ident, hrank) for _, g in goals]}


def proj_single_pop(pop: arch.MIOPopulation, goals, ident, hrank) -> dict:
    return {"objs": [], "unc": [], "cov": [], "pops": [proj_pop(pop, goals, ident, hrank)]}


def _hrank_p2(h: float) -> int:
    if 0.5 < h < 1.0:
        return 3  # h just below 1.0: a tiny positive fitness must not count as covered
    return H_RANK[h]


class RecordingDict(dict):
    """Stands in for CoverageArchive._covered: behaves as the dict it is, and logs every
    assignment archive[goal] = solution (observation only)."""

    def __init__(self, *args):
        super().__init__(*args)
        self.log: list = []

    def __setitem__(self, key, value):
        self.log.append((key, value))
        super().__setitem__(key, value)


def proj_steps(log, goals, ident) -> list[dict]:
    idx = {g: i for i, g in goals}
    return [{"g": idx[k], "sol": proj_sol(v, goals, ident)} for k, v in log]


def event(mode, op, post, *, sols=(), gs=(), n=0, rb=False, ntf=(), exc="", steps=(), cvs=()) -> dict:
    """One public call: arguments, return value, callbacks fired, archive projected afterwards
    (the view before the call is the `post` of the previous event)."""
    return {"mode": mode, "op": op, "sols": list(sols), "gs": list(gs), "n": n,
            "post": post, "rb": bool(rb), "ntf": list(ntf), "exc": exc, "steps": list(steps),
            "cvs": list(cvs)}


def replay(beh: dict) -> dict:
    """Execute one abstract history on real archive objects; return the recorded trace."""
    init, hist = beh["init"], beh["hist"]
    mode = init["mode"]
    ng = init["ng"]
    registry: dict[int, dict] = {}
    fns = [GoalFitness(g, registry) for g in range(1, ng + 1)]
    goals = list(enumerate(fns, start=1))
    objects: dict[int, tcc.TestCaseChromosome] = {}
    notified: list[int] = []
    randomness.RNG.seed(beh.get("seed", 0))

    def obj(sol: dict):
        sid = sol["id"]
        if sid not in objects:
            registry[sid] = sol
            objects[sid] = make_chromosome(sol, fns)
        return objects[sid]

    if mode == "cov":
        a = arch.CoverageArchive(OrderedSet(fns[g - 1] for g in init["objs"]))
        a.add_on_target_covered(lambda t: notified.append(t.g))
        a._covered = RecordingDict(a._covered)
        proj = lambda: proj_cov(a, goals, sol_id)  # noqa: E731
    elif mode == "mio":
        a = arch.MIOArchive(OrderedSet(fns), init["cap"])
        a.add_on_target_covered(lambda t: notified.append(t.g))
        proj = lambda: proj_mio(a, goals, sol_id, _hrank_p2)  # noqa: E731
    else:
        a = arch.MIOPopulation(init["cap"])
        proj = lambda: proj_single_pop(a, goals, sol_id, _hrank_p2)  # noqa: E731

    events = [event(mode, "init", proj(), n=0 if mode == "cov" else init["cap"])]
    for act in hist:
        op = act["op"]
        offered = act["offered"]
        chroms = [obj(s) for s in offered]
        del notified[:]
        log = a._covered.log if mode == "cov" else []
        del log[:]
        rb, exc = False, ""
        try:
            if op in ("update", "mio_update"):
                rb = a.update(chroms)
            elif op == "add_goals":
                a.add_goals(OrderedSet(fns[g - 1] for g in act["gs"]))
            elif op == "reset":
                a.reset()
            elif op == "shrink":
                a.shrink_solutions(act["n"])
            elif op == "getsol":
                a.get_solution()
            elif op == "pop_add":
                rb = a.add_solution(H_OF_CLASS[offered[0]["fit"][0]], chroms[0])
            elif op == "pop_shrink":
                a.shrink_population(act["n"])
            elif op == "pop_sample":
                a.sample_solution()
            else:
                raise ValueError(op)
            if mode in ("cov", "mio"):
                a.solutions  # public read; CoverageArchive asserts its own consistency here
        except (AssertionError, KeyError, IndexError, AttributeError, TypeError) as ex:
            exc = type(ex).__name__
        events.append(event(mode, op, proj(), sols=offered, gs=act["gs"], n=act["n"], rb=rb,
                            ntf=notified, exc=exc, steps=proj_steps(log, goals, sol_id)))
    return {"ev": events}


# --------------------------------------------------------------------------------------
# P1: observe the archive of a real search run
# --------------------------------------------------------------------------------------
class Recorder:
    """Wraps the archive of a real search algorithm (in this process, no source edits) and
    records one event per archive call.  If the archive is found changed between two calls
    (somebody mutated an archived chromosome), an "observe" event records that view, so that
    the clauses are evaluated on it as on any other step."""

    def __init__(self, algorithm, max_events: int = 400):
        self.alg = algorithm
        self.archive = algorithm.archive
        self.fns = list(algorithm.test_case_fitness_functions)
        self.goals = list(enumerate(self.fns, start=1))
        self.idx = {g: i for i, g in self.goals}
        self.events: list[dict] = []
        self.max_events = max_events
        self.calls_seen = 0
        self.steps_seen = 0
        self.blind = False
        self._keep: list = []          # keeps observed chromosomes alive (stable identities)
        self._ids: dict[int, int] = {}
        self.notified: list[int] = []
        self.is_mio = isinstance(self.archive, arch.MIOArchive)
        self.mode = "mio" if self.is_mio else "cov"
        self.archive.add_on_target_covered(lambda t: self.notified.append(self.idx[t]))
        self._depth = 0
        self._last: dict | None = None
        self._last_cvs: list | None = None
        self._codes: dict[tuple, int] = {}
        self._ncache: dict[int, tuple] = {}
        self._log: list = []
        if not self.is_mio:
            self.archive._covered = RecordingDict(self.archive._covered)
            self._log = self.archive._covered.log

    # identities: the i-th distinct chromosome object seen gets id i
    def ident(self, ch) -> int:
        k = id(ch)
        if k not in self._ids:
            self._keep.append(ch)
            self._ids[k] = len(self._keep)
        return self._ids[k]

    @staticmethod
    def hrank(h: float):
        """During the run h values are kept as floats (1.0 -> HOne, 0.0 -> 0); trace() replaces
        them by their dense rank among all h values of the run (order-preserving, exact)."""
        if h == 1.0:
            return HONE
        if h == 0.0:
            return 0
        return float(h)

    def project(self) -> dict:
        if self.is_mio:
            return proj_mio(self.archive, self.goals, self.ident, self.hrank)
        return proj_cov(self.archive, self.goals, self.ident)

    # who is archived with which statements (content identity = source text of the statements)
    def _cv(self, chromosome) -> int:
        key = []
        for st in chromosome.test_case.statements():
            ent = self._ncache.get(id(st.node))
            if ent is None or ent[0] is not st.node:
                ent = (st.node, cst.Module(body=[st.node]).code)
                self._ncache[id(st.node)] = ent
            key.append(ent[1])
        return self._codes.setdefault(tuple(key), len(self._codes) + 1)

    def cvs(self) -> list:
        def one(ch):
            return {"id": self.ident(ch), "cv": self._cv(ch), "size": ch.size()}
        if self.is_mio:
            return [[one(p.test_case_chromosome) for p in self.archive._archive[g]._solutions]
                    for _, g in self.goals]
        cov = self.archive._covered
        return [[one(cov[g])] if g in cov else [] for _, g in self.goals]

    def changed(self, view: dict, cvs: list) -> bool:
        return view != self._last or cvs != self._last_cvs

    def offered(self, solutions) -> list[dict]:
        out = []
        for s in solutions:
            r = s.get_last_execution_result()
            epos = 0
            if self.is_mio:
                fit = []
                for _, g in self.goals:
                    f = s.get_fitness_for(g)
                    h = 1.0 - arch.normalise(f)
                    fit.append(Z if f == 0.0 else T if h == 1.0 else self.hrank(h))
                r = s.get_last_execution_result()
                if r is not None and r.has_test_exceptions():
                    epos = r.get_first_position_of_thrown_exception()
                # the archive stores a clone: its identity is filled in after the call
                out.append({"id": 0, "size": s.size(), "res": res_kind(s), "epos": epos,
                            "fit": fit})
            else:
                covers = {i for i, g in self.goals if s.get_is_covered(g)}
                out.append({"id": self.ident(s), "size": s.size(), "res": res_kind(s),
                            "epos": epos, "fit": [Z if i in covers else 1 for i, _ in self.goals]})
        return out

    def _emit(self, op, post, **kw) -> None:
        kw.setdefault("cvs", self.cvs())
        self.events.append(event(self.mode, op, post, **kw))
        self._last = post
        self._last_cvs = kw["cvs"]

    def install(self) -> None:
        a = self.archive
        rec = self
        # the capacity the algorithm announced: MIO's parameter n (0: not a MIO archive)
        n0 = int(getattr(getattr(self.alg, "_parameters", None), "n", 0)) if self.is_mio else 0
        self._emit("init", self.project(), n=n0)

        def wrap(name, op, args_of):
            orig = getattr(a, name)

            @functools.wraps(orig)
            def wrapper(*args, **kwargs):
                if rec._depth > 0:
                    return orig(*args, **kwargs)
                rec.calls_seen += 1
                if len(rec.events) >= rec.max_events:
                    rec.blind = True   # from here on archive calls go unrecorded
                    return orig(*args, **kwargs)
                rec._depth += 1
                try:
                    extra = args_of(*args, **kwargs)
                    if "solutions" in extra:
                        sols = list(extra.pop("solutions"))
                        args, kwargs = (sols,), {}
                        extra["sols"] = rec.offered(sols)
                    pre = rec.project()
                    pre_cvs = rec.cvs()
                    if rec.changed(pre, pre_cvs):
                        rec._emit("observe", pre, cvs=pre_cvs)
                    del rec.notified[:]
                    del rec._log[:]
                    result = orig(*args, **kwargs)
                    post = rec.project()
                    if rec.is_mio and "sols" in extra:
                        rec._mio_ids(extra["sols"], pre, post)
                    rec._emit(op, post, rb=bool(result), ntf=rec.notified,
                              steps=proj_steps(rec._log, rec.goals, rec.ident), **extra)
                    return result
                finally:
                    rec._depth -= 1

            setattr(a, name, wrapper)

        if self.is_mio:
            wrap("update", "mio_update", lambda solutions: {"solutions": solutions})
            wrap("shrink_solutions", "shrink", lambda new_population_size: {"n": new_population_size})
            wrap("get_solution", "getsol", lambda: {})
        else:
            wrap("update", "update", lambda solutions: {"solutions": solutions})
            wrap("add_goals", "add_goals",
                 lambda new_goals: {"gs": [rec.idx[g] for g in new_goals]})
            wrap("reset", "reset", lambda: {})

    def install_step_hooks(self) -> None:
        """After every step of the search loop (evolve, local_search, MIO's _update_parameters) the
        archive is projected again and every archived test is re-executed ("recheck")."""
        alg, rec = self.alg, self
        for name in ("evolve", "local_search", "_update_parameters"):
            orig = getattr(alg, name, None)
            if orig is None:
                continue

            def hooked(*args, _orig=orig, **kwargs):
                result = _orig(*args, **kwargs)
                rec.steps_seen += 1
                rec.recheck()
                return result

            setattr(alg, name, hooked)

    @staticmethod
    def _mio_ids(sols: list[dict], pre: dict, post: dict) -> None:
        """MIOArchive stores one clone per offered solution: the offered solution gets the
        identity of that clone (the chromosome identities that are new in `post`, in order)."""
        old = {p["sol"]["id"] for pop in pre["pops"] for p in pop["sols"]}
        new = sorted({p["sol"]["id"] for pop in post["pops"] for p in pop["sols"]} - old)
        nxt = max([0, *old, *new]) + 1000
        for k, s in enumerate(sols):
            if len(sols) == 1 and len(new) == 1:
                s["id"] = new[0]
            else:
                s["id"] = nxt + k

    def recheck(self, final: bool = False) -> None:
        """Re-execute every archived test (a clone, marked as changed, result dropped) and
        record the view with the re-computed `covers`.  Once the event budget is used up archive
        calls go unrecorded: no further step re-checks, and the view found at the end of the run is
        marked (n = -1) as one that unrecorded archive calls may have produced."""
        if self.blind and not final:
            return
        pre = self.project()
        pre_cvs = self.cvs()
        if self.changed(pre, pre_cvs):
            self._emit("observe", pre, cvs=pre_cvs, n=-1 if self.blind else 0)
        post = self.project()
        if self.is_mio:
            for (_, g), pop in zip(self.goals, post["pops"]):
                real = self.archive._archive[g]
                for entry, pair in zip(pop["sols"], real._solutions):
                    entry["sol"]["covers"] = self._reexec_covers(pair.test_case_chromosome)
        else:
            for (_, g), entry in zip(self.goals, post["cov"]):
                if entry["id"]:
                    entry["covers"] = self._reexec_covers(self.archive._covered[g])
        self.events.append(event(self.mode, "recheck", post, cvs=pre_cvs))

    def _reexec_covers(self, chromosome) -> list[int]:
        c = chromosome.clone()
        c.changed = True
        c.remove_last_execution_result()
        return [i for i, g in self.goals if c.get_is_covered(g)]

    def trace(self) -> dict:
        hs: set[float] = set()

        def walk(x, fn):
            if isinstance(x, dict):
                return {k: walk(v, fn) for k, v in x.items()}
            if isinstance(x, list):
                return [walk(v, fn) for v in x]
            return fn(x)

        walk(self.events, lambda x: hs.add(x) if isinstance(x, float) else None)
        rank = {h: i + 1 for i, h in enumerate(sorted(hs))}
        return {"ev": walk(self.events, lambda x: rank[x] if isinstance(x, float) else x)}


assert math.isclose(1.0 - arch.normalise(FITVAL[2]), 0.5) and 1.0 - arch.normalise(FITVAL[1]) == 0.25
assert 1.0 - arch.normalise(FITVAL[T]) == 1.0 and FITVAL[T] > 0.0


SUT_SOURCE = '''\
def classify(a: int, b: int, c: int) -> int:
    if a <= 0 or b <= 0 or c <= 0:
        raise ValueError("sides must be positive")
    if a == b:
        if b == c:
            return 3
        return 2
    if b == c or a == c:
        return 2
    return 1


def bucket(x: int) -> str:
    if x < 0:
        return "neg"
    if x < 10:
        if x == 7:
            return "seven"
        return "small"
    return "big"
'''


# integer equalities that local search can reach from a nearby value, in sequence
SUT_LS_SOURCE = '''\
def grade(x: int, y: int) -> int:
    if x == 4321:
        return 1
    if y == 55:
        return 2
    if x == y:
        return 3
    return 0
'''


def run_search(job: dict) -> dict:
    """P1: run a real, tiny search in this process and record its archive call by call.

    job = {algorithm, dir, module, seed, iterations, population, max_events}
    """
    import importlib
    import sys
    from pathlib import Path

    import pynguin.configuration as config
    import pynguin.ga.generationalgorithmfactory as gaf
    from pynguin.analyses.module import generate_test_cluster
    from pynguin.instrumentation.machinery import install_import_hook
    from pynguin.instrumentation.tracer import SubjectProperties
    from pynguin.testcase.execution import TestCaseExecutor

    d = Path(job["dir"])
    d.mkdir(parents=True, exist_ok=True)
    (d / f"{job['module']}.py").write_text(SUT_LS_SOURCE if job.get("sut") == "ls" else SUT_SOURCE)
    config.configuration = config.Configuration(
        algorithm=config.Algorithm[job["algorithm"]],
        project_path=str(d),
        test_case_output=config.TestCaseOutputConfiguration(output_path=""),
        module_name=job["module"],
    )
    config.configuration.stopping.maximum_iterations = job["iterations"]
    config.configuration.stopping.maximum_memory = -1  # the (forked) harness process is big
    config.configuration.search_algorithm.population = job["population"]
    config.configuration.seeding.seed = job["seed"]
    for k, v in job.get("search", {}).items():
        setattr(config.configuration.search_algorithm, k, v)
    for k, v in job.get("local_search", {}).items():
        setattr(config.configuration.local_search, k, v)
    randomness.RNG.seed(job["seed"])
    sys.path.insert(0, str(d))
    sp = SubjectProperties()
    with install_import_hook(job["module"], sp):
        with sp.instrumentation_tracer:
            module = importlib.import_module(job["module"])
            importlib.reload(module)
        executor = TestCaseExecutor(sp)
        cluster = generate_test_cluster(job["module"])
        alg = gaf.TestSuiteGenerationAlgorithmFactory(executor, cluster).get_search_algorithm()
        rec = Recorder(alg, job.get("max_events", 300))
        rec.install()
        if job.get("every_step"):
            rec.install_step_hooks()
        aborted = ""
        try:
            alg.generate_tests()
        except (AssertionError, KeyError, IndexError, AttributeError, TypeError, ValueError) as ex:
            # the search tripped over its own state; what was recorded until then is judged
            aborted = f"{type(ex).__name__}: {ex}"[:200]
        rec.recheck(final=True)
    tr = rec.trace()
    tr["aborted"] = aborted
    tr["calls_seen"] = rec.calls_seen
    tr["steps_seen"] = rec.steps_seen
    tr["goals"] = [str(g) for g in rec.fns]
    return tr

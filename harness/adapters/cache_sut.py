"""Tiny subject under test for the C12 cache check (only its signatures matter: the test
factory builds statements calling it; nothing here is ever executed by the check)."""


class Box:
    def __init__(self, x: int) -> None:
        self.x = x

    def add(self, y: int) -> int:
        return self.x + y


def twice(a: int) -> int:
    return 2 * a


def join(a: str, b: str) -> str:
    return a + b

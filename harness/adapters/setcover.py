"""C21 adapter: abstract mutation-analysis outcomes -> the real assertion minimisation / score code.

Three real entry points are driven (nothing here decides a property; TLC evaluates
SetCoverTrace.tla on the recorded events):

* `_select_minimal_assertions(kill_map)`            -> event "Sel"   (narrowest entry of the selection)
* `_MutationSummary.get_metrics().get_score()`      -> event "Score" (real _MutantInfo lists)
* `MutationAnalysisAssertionGenerator._handle_add_assertions(test_cases)` on real TestCase /
  Assertion / ExecutionResult objects, with the ENVIRONMENT stubbed (mutation controller that
  yields valid / invalid modules, executor that answers with prepared ExecutionResults, fake
  monotonic clock for the time budget)                -> event "Min"
  The real `_execute_test_case_on_mutants`, `_execute_test_case_on_mutant`,
  `_abort_after_first_timeout`, `__compute_mutation_summary`, `__report_mutation_summary`,
  `__remove_non_relevant_assertions`, `__minimize_assertions`, `__build_kill_map` and
  `_select_minimal_assertions` all run unmodified.

`observe_handle` is also used by harness/adapters/e2e_kills_runner.py inside real end-to-end
runs (real controller, real executors), so P2 and P1 events have the same shape.
"""

from __future__ import annotations

import hashlib
import json
import math
import os
import shutil
import signal
import subprocess
import sys
import types
from concurrent.futures import ThreadPoolExecutor
from fractions import Fraction
from pathlib import Path

ROOT = Path(__file__).resolve().parents[2]

# --------------------------------------------------------------------------------------
# numbers
# --------------------------------------------------------------------------------------


def frac(x) -> dict:
    """float score -> exact small fraction (TLC has no floats)."""
    if isinstance(x, bool) or not isinstance(x, (int, float)):
        return {"n": 0, "d": 1, "tag": "notnum"}
    if isinstance(x, float) and (math.isnan(x) or math.isinf(x)):
        return {"n": 0, "d": 1, "tag": "nan" if math.isnan(x) else "inf"}
    fr = Fraction(x).limit_denominator(1000)
    exact = fr.numerator / fr.denominator == x
    n, d = fr.numerator, fr.denominator
    if abs(n) > 10 ** 8:
        return {"n": 10 ** 8 if n > 0 else -10 ** 8, "d": 1, "tag": "huge"}
    return {"n": n, "d": d, "tag": "ok" if exact else "approx"}


# --------------------------------------------------------------------------------------
# narrow entry: _select_minimal_assertions
# --------------------------------------------------------------------------------------
LAYOUTS = {
    0: [[], [0], [0, 0], ["X"]],
    1: [[1], [0, 1], [1, 0], ["X", 1]],
    2: [[2], [1, 1], [1, "X", 1], [0, 2, 0]],
    3: [[3], [1, 2], [2, "X", 1], [1, 0, 1, 1]],
    4: [[4], [2, 2], [1, "X", 3], [1, 1, 1, 1]],
}


def layout_for(n: int, lay: int) -> list:
    opts = LAYOUTS.get(n) or [[n], [n // 2, n - n // 2], [1, "X", n - 1], [1] * n]
    return opts[lay % len(opts)]


def keys_of(layout: list) -> list[tuple[int, int]]:
    """(stmt_idx, assertion_idx) of the plain assertions of a layout, in statement order."""
    out = []
    for s, spec in enumerate(layout):
        if spec == "X":
            continue
        out.extend((s, i) for i in range(spec))
    return out


def replay_select(n: int, m: int, viol: list[list[int]], lay: int = 0) -> dict:
    """One kill map -> real `_select_minimal_assertions`; keys are real (stmt, idx) tuples."""
    import pynguin.assertion.assertiongenerator as ag  # noqa: PLC0415

    keys = keys_of(layout_for(n, lay))
    km = {keys[a]: {j for j in range(m) if (a + 1) in viol[j]} for a in range(n)}
    snapshot = {k: set(v) for k, v in km.items()}
    ev = {"ev": "Sel", "km": [sorted(x + 1 for x in snapshot[k]) for k in keys], "keep": [], "crashed": False,
          "argmut": False}
    try:
        keep = ag._select_minimal_assertions(km)  # noqa: SLF001
    except Exception as ex:  # noqa: BLE001
        ev["crashed"] = True
        ev["err"] = f"{type(ex).__name__}: {ex}"
        return ev
    ev["keep"] = sorted((keys.index(k) + 1) if k in keys else 0 for k in keep)
    ev["argmut"] = km != snapshot
    return ev


# --------------------------------------------------------------------------------------
# narrow entry: the score
# --------------------------------------------------------------------------------------
def replay_score(c: int, k: int, t: int, u: int) -> dict:
    """Count tuple -> real _MutantInfo list -> _MutationSummary.get_metrics().get_score()."""
    import pynguin.assertion.assertiongenerator as ag  # noqa: PLC0415

    infos = []
    num = 0
    for _ in range(k):
        infos.append(ag._MutantInfo(num, killed_by=[0]))  # noqa: SLF001
        num += 1
    for j in range(t):
        # a timed-out mutant may have been "killed" by an earlier test: still a timeout
        infos.append(ag._MutantInfo(num, timed_out_by=[1], killed_by=[0] if j % 2 else []))  # noqa: SLF001
        num += 1
    for _ in range(c - u - t - k):
        infos.append(ag._MutantInfo(num))  # noqa: SLF001
        num += 1
    # interleave deterministically so that the order of mutants is not sorted by status
    infos = infos[1::2] + infos[0::2]
    ev = {"ev": "Score", "c": c, "k": k, "t": t, "u": u, "mc": -1, "mk": -1, "mt": -1,
          "s": {"n": 0, "d": 1, "tag": "exc"}, "base": {"n": 0, "d": 1, "tag": "exc"}}
    try:
        metrics = ag._MutationSummary(infos).get_metrics()  # noqa: SLF001
        ev["mc"], ev["mk"], ev["mt"] = (metrics.num_created_mutants, metrics.num_killed_mutants,
                                        metrics.num_timeout_mutants)
        ev["s"] = frac(metrics.get_score())
    except Exception as ex:  # noqa: BLE001
        ev["err"] = f"{type(ex).__name__}: {ex}"
    try:
        ev["base"] = frac(ag._MutationMetrics(c - u - t, k, 0).get_score())  # noqa: SLF001
    except Exception as ex:  # noqa: BLE001
        ev["err_base"] = f"{type(ex).__name__}: {ex}"
    return ev


# --------------------------------------------------------------------------------------
# observation of one real _handle_add_assertions call (shared by P2 and the E2E runner)
# --------------------------------------------------------------------------------------
def snapshot_assertions(test_cases) -> list[dict]:
    """Per test: the assertion objects in statement order (flat numbers 1..n) and their keys."""
    out = []
    for t in test_cases:
        objs, keys, kinds = [], [], []
        for s, st in enumerate(t.statements()):
            for i, a in enumerate(st.assertions):
                objs.append(a)
                keys.append((s, i))
                kinds.append(type(a).__name__)
        out.append({"objs": objs, "keys": keys, "kinds": kinds})
    return out


def _summ(result, snap: dict) -> dict:
    if result is None:
        return {"none": True, "tmo": False, "exc": False, "viol": []}
    vt = result.assertion_verification_trace
    viol = set()
    for d in (vt.failed, vt.error):
        for s, idxs in d.items():
            for i in idxs:
                viol.add(snap["keys"].index((s, i)) + 1 if (s, i) in snap["keys"] else 0)
    return {"none": False, "tmo": bool(result.timeout), "exc": bool(result.has_test_exceptions()),
            "viol": sorted(viol)}


NONE_CELL = {"none": True, "tmo": False, "exc": False, "viol": []}


def _fingerprint(mutations) -> str:
    import ast  # noqa: PLC0415

    out = []
    for mu in mutations or []:
        try:
            out.append((getattr(mu.operator, "__name__", str(mu.operator)), mu.visitor_name,
                        getattr(mu.node, "lineno", 0), getattr(mu.node, "col_offset", 0),
                        ast.dump(mu.replacement_node) if isinstance(mu.replacement_node, ast.AST) else ""))
        except Exception as ex:  # noqa: BLE001
            out.append(("?", type(ex).__name__))
    return json.dumps(out)


class Recorder:
    """Wraps the boundary calls of one generator instance; records what passed through."""

    def __init__(self, gen, test_cases):
        self.gen = gen
        self.tests = test_cases
        self.snaps = snapshot_assertions(test_cases)
        self.cols: list[dict] = []
        self.sel: list[tuple[dict, set]] = []
        self.stats: dict[str, object] = {}
        self.fps: list[str] = []  # what the controller yielded, in order

    def wrap_exec(self):
        orig = type(self.gen)._execute_test_case_on_mutant.__get__(self.gen)  # noqa: SLF001
        rec = self

        def wrapper(test_cases, mutated_module, idx, mutant_count):
            r = orig(test_cases, mutated_module, idx, mutant_count)
            col = {"idx": idx, "invalid": mutated_module is None, "returned_none": r is None, "res": []}
            rec.cols.append(col)
            if r is None:
                return None

            def relay():
                for x in r:
                    t = len(col["res"])
                    col["res"].append(_summ(x, rec.snaps[t]) if t < len(rec.snaps) else dict(NONE_CELL))
                    yield x

            return relay()

        self.gen._execute_test_case_on_mutant = wrapper  # noqa: SLF001
        ctrl = self.gen._mutation_controller  # noqa: SLF001
        orig_create = type(ctrl).create_mutants.__get__(ctrl)

        def create_mutants():
            for module, mutations in orig_create():
                rec.fps.append(_fingerprint(mutations))
                yield module, mutations

        try:
            ctrl.create_mutants = create_mutants
        except AttributeError:
            pass

    def unwrap_exec(self):
        self.gen.__dict__.pop("_execute_test_case_on_mutant", None)
        getattr(self.gen._mutation_controller, "__dict__", {}).pop("create_mutants", None)  # noqa: SLF001

    def columns(self, created: int) -> tuple[list[str], list[list[dict]]]:
        """col[m] and out[t][m] for m = 1..max(created, number of calls)."""
        n = max(created, max([c["idx"] for c in self.cols], default=0))
        col = ["unchecked"] * n
        out = [[dict(NONE_CELL) for _ in range(n)] for _ in self.tests]
        for c in self.cols:
            m = c["idx"] - 1
            if c["invalid"] or c["returned_none"]:
                continue
            col[m] = "ok"
            for t, cell in enumerate(c["res"][:len(self.tests)]):
                out[t][m] = cell
        return col, out


def observe_handle(gen, test_cases, call, rerun: bool = False) -> list[dict]:
    """Run `call()` (= the real _handle_add_assertions on gen/test_cases) and record one "Min" event
    (+ one "Rerun" event: the mutants executed again with the assertions that are left)."""
    import pynguin.assertion.assertiongenerator as ag  # noqa: PLC0415
    import pynguin.configuration as config  # noqa: PLC0415
    import pynguin.utils.statistics.stats as stat  # noqa: PLC0415

    rec = Recorder(gen, test_cases)
    rec.wrap_exec()
    orig_sel = ag._select_minimal_assertions  # noqa: SLF001

    def sel(kill_map):
        snap = {k: set(v) for k, v in kill_map.items()}
        keep = orig_sel(kill_map)
        rec.sel.append((snap, set(keep)))
        return keep

    ag._select_minimal_assertions = sel  # noqa: SLF001
    orig_tov = stat.track_output_variable

    def tov(variable, value):
        rec.stats[getattr(variable, "name", str(variable))] = value
        return orig_tov(variable, value)

    stat.track_output_variable = tov
    from pynguin.utils import randomness  # noqa: PLC0415

    rng_before = randomness.RNG.getstate()
    crashed = ""
    try:
        call()
    except Exception as ex:  # noqa: BLE001
        crashed = f"{type(ex).__name__}: {ex}"
    finally:
        ag._select_minimal_assertions = orig_sel  # noqa: SLF001
        stat.track_output_variable = orig_tov
        rec.unwrap_exec()

    try:
        created = int(gen._mutation_controller.mutant_count())  # noqa: SLF001
    except Exception:  # noqa: BLE001
        created = 0
    col, out = rec.columns(created)
    rem = []
    for t, snap in zip(test_cases, rec.snaps):
        ids = {id(o): i + 1 for i, o in enumerate(snap["objs"])}
        rem.append([ids.get(id(a), 0) for st in t.statements() for a in st.assertions])
    sels = []
    for n, (km, keep) in enumerate(rec.sel):
        keys = sorted(km)
        snap = rec.snaps[n] if n < len(rec.snaps) else {"keys": []}
        sels.append({"km": [sorted(x + 1 for x in km[k]) for k in keys],
                     "ids": [snap["keys"].index(k) + 1 if k in snap["keys"] else 0 for k in keys],
                     "keep": sorted((keys.index(k) + 1) if k in keys else 0 for k in keep)})
    ev = {"ev": "Min", "nA": [len(s["objs"]) for s in rec.snaps], "nM": len(col), "col": col, "out": out,
          "rem": rem, "sel": sels, "crashed": bool(crashed), "err": crashed,
          "minimize": bool(config.configuration.test_case_output.assertion_minimization),
          "xonly": [[i + 1 for i, k in enumerate(s["kinds"]) if k == "ExceptionAssertion"] for s in rec.snaps],
          "kinds": [s["kinds"] for s in rec.snaps],
          "r_created": int(rec.stats.get("NumberOfCreatedMutants", -1)),
          "r_checked": int(rec.stats.get("NumberOfCheckedMutants", -1)),
          "r_killed": int(rec.stats.get("NumberOfKilledMutants", -1)),
          "r_timeout": int(rec.stats.get("NumberOfTimedOutMutants", -1)),
          "has_score": "MutationScore" in rec.stats,
          "s": frac(rec.stats.get("MutationScore")) if "MutationScore" in rec.stats else {"n": 0, "d": 1, "tag": "none"}}
    events = [ev]
    if rerun and not crashed:
        rec2 = Recorder(gen, test_cases)
        rec2.wrap_exec()
        err2 = ""
        # a RANDOM higher-order strategy draws from the global generator: replay the same draws
        rng_after = randomness.RNG.getstate()
        randomness.RNG.setstate(rng_before)
        try:
            for res in gen._execute_test_case_on_mutants(test_cases, created):  # noqa: SLF001
                if res is None:
                    continue
                for _ in res:
                    pass
        except Exception as ex:  # noqa: BLE001
            err2 = f"{type(ex).__name__}: {ex}"
        finally:
            rec2.unwrap_exec()
            randomness.RNG.setstate(rng_after)
        col2, out2 = rec2.columns(created)
        # a mutant of the second pass that is not the mutant of the first pass is undecided
        different = 0
        for m in range(len(col2)):
            f1 = rec.fps[m] if m < len(rec.fps) else None
            f2 = rec2.fps[m] if m < len(rec2.fps) else None
            if col2[m] == "ok" and f1 != f2:
                col2[m] = "unchecked"
                different += 1
        # number the assertions that are left by their ORIGINAL flat numbers
        for t in range(len(test_cases)):
            left = rem[t]
            for m in range(len(col2)):
                cell = out2[t][m]
                cell["viol"] = sorted({left[v - 1] if 0 < v <= len(left) else 0 for v in cell["viol"]})
        events.append({"ev": "Rerun", "nA": ev["nA"], "nM": ev["nM"], "col": col, "out": out, "rem": rem,
                       "col2": col2 + ["unchecked"] * (len(col) - len(col2)),
                       "out2": [row + [dict(NONE_CELL)] * (len(col) - len(row)) for row in out2],
                       "crashed": bool(err2), "err": err2, "kinds": ev["kinds"], "different_mutants": different})
    return events


# --------------------------------------------------------------------------------------
# wide entry: real _handle_add_assertions, stubbed environment
# --------------------------------------------------------------------------------------
_NODES: dict[int, object] = {}


def _node(s: int):
    import libcst as cst  # noqa: PLC0415

    if s not in _NODES:
        _NODES[s] = cst.parse_statement(f"var_{s} = {s}")
    return _NODES[s]


def build_test(layout: list):
    """Real TestCase with real assertions according to a layout; returns (test, flat keys)."""
    import pynguin.assertion.assertion as ass  # noqa: PLC0415
    import pynguin.testcase.testcase as tc  # noqa: PLC0415

    test = tc.TestCase()
    flat = 0
    for s, spec in enumerate(layout):
        src = f"var_{s}"
        asserts = []
        if spec == "X":
            flat += 1
            asserts.append(ass.ExceptionAssertion("builtins", "ValueError"))
        else:
            for _ in range(spec):
                flat += 1
                kind = flat % 4
                if kind == 0:
                    asserts.append(ass.ObjectAssertion(src, flat))
                elif kind == 1:
                    asserts.append(ass.FloatAssertion(src, flat + 0.5))
                elif kind == 2:
                    asserts.append(ass.CollectionLengthAssertion(src, flat))
                else:
                    asserts.append(ass.IsInstanceAssertion(src, "builtins", ["int", "str", "float", "bool"][flat % 4]))
        test.add_statement(tc.Statement(node=_node(s), bound_variable=src, bound_type=int, assertions=asserts))
    return test


def flat_layout(n: int, lay: int) -> list:
    """Layout with exactly n assertions in total ("X" statements carry one)."""
    opts = {
        0: [[], [0], [0, 0], [0]],
        1: [[1], [0, 1], ["X"], [1, 0]],
        2: [[2], [1, 1], [1, "X"], [0, 2, 0]],
        3: [[3], [1, 2], [2, "X"], [1, 0, 1, 1]],
        4: [[4], [2, 2], [1, "X", 2], [1, 1, 1, 1]],
    }.get(n) or [[n], [n // 2, n - n // 2], [2, "X", n - 3], [1] * n]
    return opts[lay % len(opts)]


class _Provider:
    def __init__(self):
        self.current = None

    def add_mutated_version(self, module_name, mutated_module):
        self.current = mutated_module


class _Controller:
    def __init__(self, kinds):
        self.kinds = kinds
        self.yielded = 0

    def mutant_count(self):
        return len(self.kinds)

    def create_mutants(self):
        for m, kind in enumerate(self.kinds):
            self.yielded += 1
            if kind == "invalid":
                yield None, []
            else:
                mod = types.ModuleType(f"c21_mutant_{m}")
                mod.c21_index = m
                yield mod, []


class _Clock:
    """monotonic() advances by one per call: the budget is counted in loop iterations."""

    def __init__(self):
        self.now = -1

    def monotonic(self):
        self.now += 1
        return self.now


def _make_result(beh: dict, layouts: list, t: int, m: int):
    from pynguin.testcase.execution_result import ExecutionResult  # noqa: PLC0415

    if beh["kind"][m] == "tmo" and beh["tmoAt"][m] - 1 == t:
        return ExecutionResult(timeout=True)
    res = ExecutionResult()
    keys = []
    for s, spec in enumerate(layouts[t]):
        keys.extend((s, i) for i in range(1 if spec == "X" else spec))
    for a in beh["viol"][t][m]:
        s, i = keys[a - 1]
        if (a + m) % 2 == 0:
            res.assertion_verification_trace.failed[s].add(i)
        else:
            res.assertion_verification_trace.error[s].add(i)
    if (m + 1) in beh["exc"][t]:
        res.report_new_thrown_exception(0, ValueError("raised on mutant"))
    return res


def replay_wide(beh: dict) -> dict:
    """One abstract outcome -> real _handle_add_assertions on real objects; returns the "Min" event."""
    import pynguin.assertion.assertiongenerator as ag  # noqa: PLC0415
    import pynguin.configuration as config  # noqa: PLC0415
    import pynguin.testcase.execution as ex  # noqa: PLC0415

    layouts = [flat_layout(n, lay) for n, lay in zip(beh["nA"], beh["lay"])]
    tests = [build_test(lo) for lo in layouts]
    provider = _Provider()
    log: list[tuple[int, int]] = []

    def produce(test_cases):
        m = provider.current.c21_index
        for t in range(len(test_cases)):
            log.append((t, m))
            yield _make_result(beh, layouts, t, m)

    if beh["sub"]:
        class _Exec(ex.SubprocessTestCaseExecutor):  # the real class is only used for isinstance
            def __init__(self):
                pass

            @property
            def module_provider(self):
                return provider

            def execute_multiple(self, test_cases):
                return list(produce(test_cases))
    else:
        class _Exec:
            module_provider = provider

            def execute_multiple(self, test_cases):
                return produce(test_cases)

    gen = ag.MutationAnalysisAssertionGenerator.__new__(ag.MutationAnalysisAssertionGenerator)
    gen._mutation_controller = _Controller(beh["kind"])  # noqa: SLF001
    gen._mutation_executor = _Exec()  # noqa: SLF001
    gen._testing = True  # noqa: SLF001
    gen._testing_mutation_summary = ag._MutationSummary()  # noqa: SLF001

    out_cfg = config.configuration.test_case_output
    saved = (out_cfg.assertion_minimization, out_cfg.maximum_mutation_time, config.configuration.module_name, ag.time)
    out_cfg.assertion_minimization = bool(beh["minimize"])
    out_cfg.maximum_mutation_time = -1 if beh["budget"] < 0 else beh["budget"] + 1
    config.configuration.module_name = "c21_stub_module"
    ag.time = _Clock()
    try:
        ev = observe_handle(gen, tests, lambda: gen._handle_add_assertions(tests))[0]  # noqa: SLF001
    finally:
        (out_cfg.assertion_minimization, out_cfg.maximum_mutation_time, config.configuration.module_name,
         ag.time) = saved
    ev["executed"] = len(log)
    ev["sub"] = bool(beh["sub"])
    return ev


def normalise(beh) -> dict:
    """TLC output (compact map / record with __set__ wrappers) -> plain behaviour dict."""
    if isinstance(beh, list) and len(beh) == 4 and all(isinstance(x, int) for x in beh):
        return {"mode": "tuple", "nA": [], "lay": [], "nM": 0, "kind": [], "tmoAt": [], "budget": -1, "viol": [],
                "exc": [], "minimize": True, "sub": False, "q": list(beh)}
    def unmask(x):
        return [i + 1 for i in range(16) if x >> i & 1]

    if isinstance(beh, list) and len(beh) == 3:
        n, m, viol = beh
        viol = [unmask(v) for v in viol]
        return {"mode": "map", "nA": [n], "lay": [0], "nM": m, "kind": ["ok"] * m, "tmoAt": [1] * m, "budget": -1,
                "viol": [[sorted(v) for v in viol]], "exc": [[]], "minimize": True, "sub": False, "q": [0, 0, 0, 0]}
    if isinstance(beh, list):
        n, m, viol, kind, exc, budget, minimize = beh
        viol = [unmask(v) for v in viol]
        exc = unmask(exc)
        return {"mode": "wide", "nA": [n], "lay": [n + m], "nM": m, "kind": list(kind), "tmoAt": [1] * m,
                "budget": budget, "viol": [[sorted(v) for v in viol]], "exc": [sorted(exc)], "minimize": bool(minimize),
                "sub": False, "q": [0, 0, 0, 0]}

    def plain(x):
        if isinstance(x, dict) and "__set__" in x:
            return sorted(plain(y) for y in x["__set__"])
        if isinstance(x, dict):
            return {k: plain(v) for k, v in x.items()}
        if isinstance(x, (list, tuple)):
            return [plain(y) for y in x]
        return x

    return plain(beh)


# --------------------------------------------------------------------------------------
# P1: end-to-end runs with harness.adapters.e2e_kills_runner
# --------------------------------------------------------------------------------------
CACHE = ROOT / ".cache" / "e2e_kills"
CORPUS_C21 = ROOT / "harness" / "sut" / "corpus_c21"
# modules whose state leaks between executions of one process: only a fresh process is a fair re-execution
LEAKY = {"c21_leaky"}
HOM = [("FIRST_TO_LAST", 2), ("BETWEEN_OPERATORS", 2), ("RANDOM", 2), ("EACH_CHOICE", 2), ("FIRST_TO_LAST", 3)]


def e2e_configs(quick: bool) -> list[dict]:
    from harness.adapters import e2e  # noqa: PLC0415

    def cfg(mod, seed, alg, extra, assertions="MUTATION_ANALYSIS", it=4):
        c = {"module": mod, "seed": seed, "algorithm": alg, "iterations": it, "assertions": assertions,
             "metrics": "BRANCH", "population": 5, "min_strategy": "CASE", "min_direction": "BACKWARD",
             "extra": extra}
        if mod in LEAKY:
            c["src_dir"] = str(CORPUS_C21)
        return c

    # c_numeric is only used with SIMPLE assertions: mutants of `while b:` loop forever and the abandoned
    # executor threads keep the interpreter busy for many minutes (in-process execution cannot kill them)
    out = [cfg("c_enum", 3, "DYNAMOSA", []),
           cfg("c_state", 5, "WHOLE_SUITE", [], it=3),
           cfg("c_container", 4, "DYNAMOSA", ["--assertion_minimization", "False"]),
           cfg("c21_leaky", 9, "DYNAMOSA", [], assertions="SIMPLE")]
    if quick:
        return out
    out.append(cfg("c_string", 7, "MIO", []))
    out.append(cfg("c_numeric", 9, "DYNAMOSA", [], assertions="SIMPLE"))
    out.append(cfg("c21_leaky", 13, "MIO", []))
    out.append(cfg("c21_leaky", 17, "WHOLE_SUITE", [], assertions="SIMPLE", it=6))
    out.append(cfg("c_float", 6, "MIO", ["--mutation_strategy", "FIRST_TO_LAST", "--mutation_order", "2"]))
    algs = ["DYNAMOSA", "MIO", "WHOLE_SUITE"]
    mods = [m for m in e2e.MODULES if m != "c_numeric"]
    for mi, mod in enumerate(mods):
        for si, seed in enumerate([11, 23]):
            out.append(cfg(mod, seed + mi, algs[(mi + si) % 3], [], it=5))
            strat, order = HOM[(mi + 2 * si) % len(HOM)]
            out.append(cfg(mod, seed + mi, algs[(mi + si + 1) % 3],
                           ["--mutation_strategy", strat, "--mutation_order", str(order)], it=5))
        out.append(cfg(mod, 31 + mi, algs[mi % 3], ["--assertion_minimization", "False"]))
        out.append(cfg(mod, 37 + mi, algs[(mi + 1) % 3], ["--maximum_mutants", "6"]))
        out.append(cfg(mod, 41 + mi, algs[(mi + 2) % 3], [], assertions="SIMPLE"))
    out.append(cfg("c_numeric", 41, "MIO", [], assertions="SIMPLE"))
    out.append(cfg("c_enum", 43, "DYNAMOSA", ["--maximum_mutation_time", "0"]))
    out.append(cfg("c_state", 47, "MIO", ["--filter_assertions_in_subprocess", "False"]))
    return out


def tree_hash() -> str:
    from harness.adapters import e2e  # noqa: PLC0415

    h = hashlib.sha1(e2e.tree_hash().encode())
    for p in (Path(__file__), Path(__file__).with_name("e2e_kills_runner.py"), *sorted(CORPUS_C21.glob("*.py"))):
        h.update(p.read_bytes())
    return h.hexdigest()[:16]


def run_one(args) -> dict:
    from harness.adapters import e2e  # noqa: PLC0415

    cfg, th, timeout = args
    cfg = dict(cfg)
    cfg.setdefault("src_dir", str(e2e.CORPUS))
    key = hashlib.sha1(json.dumps(cfg, sort_keys=True).encode()).hexdigest()[:16]
    out = CACHE / th / key
    done = out / "done.json"
    if done.exists():
        res = e2e.load(out, cfg, cached=True)
        if not res["hung"] and any(e["ev"] == "Return" for e in res["events"]):
            return res  # an unfinished run is never served from the cache: run it again
    shutil.rmtree(out, ignore_errors=True)
    out.mkdir(parents=True)
    (out / "cfg.json").write_text(json.dumps(cfg))
    env = dict(os.environ)
    env["PYTHONHASHSEED"] = str(cfg.get("hashseed", 0))
    env["PYNGUIN_DANGER_AWARE"] = "1"
    env["PYTHONPATH"] = f"{ROOT}:{os.environ.get('VERIF_REPO', '/repo')}/src"
    p = subprocess.Popen([sys.executable, "-m", "harness.adapters.e2e_kills_runner", str(out / "cfg.json"), str(out)],
                         cwd=str(ROOT), env=env, stdout=subprocess.DEVNULL, stderr=subprocess.PIPE,
                         start_new_session=True)
    hung = False
    try:
        _, err = p.communicate(timeout=timeout)
    except subprocess.TimeoutExpired:
        hung = True
        try:
            os.killpg(p.pid, signal.SIGKILL)
        except ProcessLookupError:
            pass
        _, err = p.communicate()
    done.write_text(json.dumps({"hung": hung, "rc": p.returncode,
                                "stderr_tail": (err or b"").decode(errors="replace")[-2000:]}))
    res = e2e.load(out, cfg, cached=False)
    if not res["events"]:
        done.unlink(missing_ok=True)
    return res


def run_many(cfgs: list[dict], timeout: int = 900, parallel: int = 6) -> list[dict]:
    th = tree_hash()
    if CACHE.exists():
        for d in CACHE.iterdir():
            if d.name != th:
                shutil.rmtree(d, ignore_errors=True)
    with ThreadPoolExecutor(max_workers=parallel) as pool:
        return list(pool.map(run_one, [(c, th, timeout) for c in cfgs]))

"""C21 part 1, filtering pass: the real AssertionGenerator.__remove_non_holding_assertions on a real
TestCase whose statements carry real ObjectAssertions, with a real AssertionVerificationTrace that
says which of them failed / could not be evaluated in the filtering execution."""

from __future__ import annotations


def run_case(case: dict) -> dict:
    import libcst as cst  # noqa: PLC0415

    import pynguin.assertion.assertion as ass  # noqa: PLC0415
    import pynguin.assertion.assertiongenerator as ag  # noqa: PLC0415
    import pynguin.testcase.testcase as tc  # noqa: PLC0415
    from pynguin.assertion.assertion_trace import AssertionVerificationTrace  # noqa: PLC0415
    from pynguin.testcase.execution import ExecutionResult  # noqa: PLC0415
    from pynguin.utils.orderedset import OrderedSet  # noqa: PLC0415

    test = tc.TestCase()
    vecs = [case["s1"], case["s2"]]
    for n, vec in enumerate(vecs):
        st = tc.Statement(node=cst.parse_module(f"var_{n} = {n}\n").body[0], bound_variable=f"var_{n}", bound_type=int)
        for i, _ in enumerate(vec, start=1):
            st.assertions.append(ass.ObjectAssertion(f"var_{n}", 100 * n + i))
        test.add_statement(st)
    result = ExecutionResult()
    trace = AssertionVerificationTrace()
    for n, vec in enumerate(vecs):
        failed = OrderedSet(i for i, o in enumerate(vec) if o == "f")
        error = OrderedSet(i for i, o in enumerate(vec) if o == "e")
        if failed:
            trace.failed[n] = failed
        if error:
            trace.error[n] = error
    result.assertion_verification_trace = trace
    ok, err = True, ""
    try:
        ag.AssertionGenerator._AssertionGenerator__remove_non_holding_assertions(test, result)  # noqa: SLF001
    except Exception as ex:  # noqa: BLE001
        ok, err = False, f"{type(ex).__name__}: {ex}"
    kept = []
    for n, st in enumerate(test.statements()):
        kept.append(sorted(a.object - 100 * n for a in st.assertions))
    return {"ev": [{"ok": ok, "error": err, "s1": case["s1"], "s2": case["s2"], "kept1": kept[0], "kept2": kept[1]}]}

"""Abstract FsIsolation call -> real call made under the real pynguin FilesystemIsolation.

Every behaviour is executed in its own sandbox directory (below ctx.work); the observed state is a
real snapshot of that directory (kind + content of every path), taken with functions that the
isolation does not patch.  The wrapper's private ``_created`` set is logged only for diagnosis.
"""

from __future__ import annotations

import builtins
import io
import logging
import os
import shutil
import stat
import tempfile
from pathlib import Path

import pynguin.configuration as config
from pynguin.utils import fs_isolation as fsi

# originals, captured before any isolation is entered (used for set-up, snapshots, tear-down)
_OPEN = io.open
_MKDIR = os.mkdir
_RMTREE = shutil.rmtree
_SCANDIR = os.scandir
_LSTAT = os.lstat

# real names: the absent paths n and a/n are *string* prefixes of the pre-existing siblings nx and a/nx
# (a permission check by string prefix instead of by path component would unlock them)
REL = {"a": "a", "ag": "a/nx", "an": "a/n", "g": "nx", "n": "n", "ng": "n/nx", "e": "e", "eg": "e/nx"}
IDS = {v: k for k, v in REL.items()}
ORDER = ["a", "ag", "an", "g", "n", "ng", "e", "eg"]
TREE0 = {"a": None, "a/nx": "8", "nx": "7", "e": None}  # None = directory
OSFLAGS = {
    "RD": os.O_RDONLY,
    "WR": os.O_WRONLY,
    "CREAT": os.O_WRONLY | os.O_CREAT,
    "TRUNC": os.O_WRONLY | os.O_CREAT | os.O_TRUNC,
    "EXCL": os.O_WRONLY | os.O_CREAT | os.O_EXCL,
    "APPEND": os.O_WRONLY | os.O_CREAT | os.O_APPEND,
}
EXIT = {"op": "Exit", "p": "", "q": "", "kw": False, "fl": "", "eo": False, "via": "none"}


def setup(work: Path) -> None:
    """Enable the isolation as pynguin's configuration does; keep its tmp dir below *work*."""
    config.configuration.filesystem_isolation = True
    logging.getLogger(fsi.__name__).setLevel(logging.ERROR)  # "Failed to cleanup path" warnings
    tmp = work / "tmp"
    tmp.mkdir(parents=True, exist_ok=True)
    os.environ["TMPDIR"] = str(tmp)
    tempfile.tempdir = None


def build_tree(root: str) -> None:
    _MKDIR(root)
    for rel, content in TREE0.items():
        p = os.path.join(root, rel)
        if content is None:
            _MKDIR(p)
        else:
            with _OPEN(p, "w") as f:
                f.write(content)


class Snap:
    """Snapshots of one sandbox; contents are interned to small ids (0 = not a file)."""

    def __init__(self, root: str) -> None:
        self.root = root
        self.ids: dict[bytes, int] = {}

    def _walk(self, d: str, rel: str, out: dict) -> None:
        with _SCANDIR(d) as it:
            entries = sorted(it, key=lambda e: e.name)
        for e in entries:
            r = f"{rel}/{e.name}" if rel else e.name
            st = _LSTAT(e.path)
            if stat.S_ISDIR(st.st_mode):
                out[r] = ("dir", b"")
                self._walk(e.path, r, out)
            elif stat.S_ISREG(st.st_mode):
                with _OPEN(e.path, "rb") as f:
                    out[r] = ("file", f.read())
            else:
                out[r] = ("other", b"")

    def take(self) -> tuple[dict, list[str], bool]:
        found: dict[str, tuple[str, bytes]] = {}
        root_ok = os.path.isdir(self.root)
        if root_ok:
            self._walk(self.root, "", found)
        nodes = {}
        for pid in ORDER:
            kind, data = found.pop(REL[pid], ("absent", b""))
            c, t = 0, []
            if kind == "file":
                c = self.ids.setdefault(data, len(self.ids) + 1)
                txt = data.decode("latin-1")
                t = [int(ch) for ch in txt] if txt.isdigit() or not txt else [-1]
            nodes[pid] = {"k": kind, "t": t, "c": c}
        return nodes, sorted(found), root_ok


def _created(iso, root: str) -> tuple[list[str], list[str]]:
    inside, other = [], []
    for p in sorted(getattr(iso, "_created", ())):
        rel = os.path.relpath(p, root) if p.startswith(root + os.sep) else None
        if rel in IDS:
            inside.append(IDS[rel])
        else:
            other.append(rel if rel is not None else p)
    return sorted(inside), other


def _perform(act: dict, root: str) -> None:  # noqa: C901, PLR0912, PLR0915
    """The call of the code under test.  Attributes are looked up at call time (patched)."""
    op, via, kw = act["op"], act["via"], act["kw"]
    sp = os.path.join(root, REL[act["p"]])
    pp = Path(sp)
    sq = os.path.join(root, REL[act["q"]]) if act["q"] else None
    if op in ("OpenR", "OpenW", "OpenA", "OpenX", "OpenRP"):
        mode = {"OpenR": "r", "OpenW": "w", "OpenA": "a", "OpenX": "x", "OpenRP": "r+"}[op]
        if via == "builtins.open":
            f = builtins.open(sp, mode)  # noqa: PTH123, SIM115
        elif via == "io.open":
            f = io.open(sp, mode)  # noqa: PTH123, SIM115, UP020
        else:
            f = pp.open(mode)  # noqa: SIM115
        with f:
            if op == "OpenR":
                f.read()
            else:
                if op == "OpenRP":
                    f.seek(0, 2)
                f.write("1")
    elif op == "OsOpen":
        fd = os.open(sp, OSFLAGS[act["fl"]], 0o644)
        try:
            if act["fl"] == "APPEND":
                os.write(fd, b"1")
        finally:
            os.close(fd)
    elif op == "Mkdir":
        os.mkdir(sp) if via == "os.mkdir" else pp.mkdir()  # noqa: PTH102
    elif op == "MkdirOk":
        pp.mkdir(exist_ok=True)
    elif op == "Makedirs":
        if via == "os.makedirs":
            os.makedirs(sp, exist_ok=act["eo"])  # noqa: PTH103
        else:
            pp.mkdir(parents=True, exist_ok=act["eo"])
    elif op == "Touch":
        pp.touch()
    elif op == "WriteText":
        pp.write_text("1") if via == "Path.write_text" else pp.write_bytes(b"1")
    elif op == "Remove":
        if via == "os.remove":
            os.remove(sp)  # noqa: PTH107
        elif via == "os.unlink":
            os.unlink(sp)  # noqa: PTH108
        else:
            pp.unlink()
    elif op == "Rmdir":
        os.rmdir(sp) if via == "os.rmdir" else pp.rmdir()  # noqa: PTH106
    elif op == "Rmtree":
        shutil.rmtree(sp)
    elif op in ("Rename", "Replace"):
        name = op.lower()
        if via.startswith("Path."):
            getattr(pp, name)(sq)
        elif kw:
            getattr(os, name)(src=sp, dst=sq)
        else:
            getattr(os, name)(sp, sq)
    elif op in ("Copy", "Copytree", "Move"):
        fn = getattr(shutil, via.split(".", 1)[1])
        if kw:
            fn(src=sp, dst=sq)
        else:
            fn(sp, sq)
    else:
        raise ValueError(op)


def _resname(ex: BaseException) -> str:
    if isinstance(ex, shutil.SameFileError):
        return "SameFileError"
    if type(ex) is shutil.Error:
        return "Error"
    return type(ex).__name__


def replay(beh: dict, root: str) -> dict:
    """Execute one abstract history in the fresh sandbox *root* under the real isolation.

    Returns {"pre": snapshot before __enter__, "ev": [one event per call + the Exit event]}; an event
    holds the call, its outcome `res`, the snapshot after it `fs1`, `_created` after it (`cr1` inside
    the modelled tree, `co1` elsewhere), unmodelled paths found `x1` and `r1` (root still there).
    The state before a call is the state after the previous one (see expand())."""
    assert not os.path.lexists(root)
    build_tree(root)
    snap = Snap(root)
    try:
        pre, x0, _ = snap.take()
        assert not x0
        events = []
        iso = fsi.FilesystemIsolation()
        assert iso._enabled, "filesystem_isolation flag not set"  # noqa: SLF001
        iso.__enter__()
        exited = False
        try:
            for act in beh["hist"]:
                try:
                    _perform(act, root)
                    res = "ok"
                except Exception as ex:  # noqa: BLE001
                    res = _resname(ex)
                fs1, x1, _ = snap.take()
                cr1 = _created(iso, root)
                events.append({**act, "res": res, "fs1": fs1, "cr1": cr1[0], "co1": cr1[1], "x1": x1,
                               "r1": True})
            exited = True
            try:
                iso.__exit__(None, None, None)
                res = "ok"
            except Exception as ex:  # noqa: BLE001
                res = _resname(ex)
            fs1, x1, r1 = snap.take()
            cr1 = _created(iso, root)
            events.append({**EXIT, "res": res, "fs1": fs1, "cr1": cr1[0], "co1": cr1[1], "x1": x1, "r1": r1})
        finally:
            if not exited:
                iso.__exit__(None, None, None)
        return {"pre": pre, "ev": events}
    finally:
        _RMTREE(root, ignore_errors=True)


def expand(tr: dict) -> dict:
    """Add fs0 / cr0 / x0 (state before each call) by reference."""
    fs, cr, x = tr["pre"], [], []
    for e in tr["ev"]:
        e["fs0"], e["cr0"], e["x0"] = fs, cr, x
        fs, cr, x = e["fs1"], e["cr1"], e["x1"]
    return tr

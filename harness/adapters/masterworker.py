"""C33 adapter: run fault plans on the real master/worker code, project events to abstract state."""

from __future__ import annotations

import json
import os
import shutil
import signal
import subprocess
import sys
import time
from pathlib import Path


def run_scenario(args) -> dict:
    scen, workdir, timeout = args
    wd = Path(workdir)
    shutil.rmtree(wd, ignore_errors=True)
    wd.mkdir(parents=True)
    (wd / "s.json").write_text(json.dumps(scen))
    env = dict(os.environ)
    t0 = time.time()
    p = subprocess.Popen([sys.executable, "-m", "harness.adapters.mw_runner", str(wd / "s.json"),
                          str(wd / "out.json")], cwd=str(Path(__file__).resolve().parents[2]),
                         env=env, stdout=subprocess.DEVNULL, stderr=subprocess.PIPE,
                         start_new_session=True)
    hung = False
    try:
        _, err = p.communicate(timeout=timeout)
    except subprocess.TimeoutExpired:
        hung = True
        try:
            os.killpg(p.pid, signal.SIGKILL)
        except ProcessLookupError:
            pass
        _, err = p.communicate()
    raw = []
    evf = wd / "events.ndjson"
    if evf.exists():
        for ln in evf.read_text().splitlines():
            if ln.strip():
                raw.append(json.loads(ln))
    res = {"scenario": scen, "raw": raw, "hung": hung, "wall_s": round(time.time() - t0, 1),
           "runner_rc": p.returncode, "stderr_tail": (err or b"").decode(errors="replace")[-1500:]}
    shutil.rmtree(wd, ignore_errors=True)
    return res


def project(res: dict) -> dict:
    """Raw events of one run -> trace of abstract states (one per relevant event)."""
    st = {"ev": "Init", "st": int(res["scenario"]["init_time"]), "restarts": 0, "inc": 0,
          "delivered": False, "returned": False, "rc": -1, "hung": False, "elapsed10": 0,
          "virtual": False, "pending": int(res["scenario"]["init_time"]), "decided": False}
    init = dict(st)
    evs = []
    for r in res["raw"]:
        ev = r["ev"]
        if ev == "Start":
            # st = search time the (re)started worker runs with; restarts as counted by the master
            st = dict(st, ev="Start", inc=r["inc"], st=r["st"], restarts=r["restarts"], pending=r["st"])
        elif ev == "Adjust":
            # two code steps (adjust, then restart-or-give-up) = one model action: the adjusted
            # value is `pending` until a worker is started with it
            st = dict(st, ev="Adjust", pending=r["new"], elapsed10=r["elapsed10"] if r["elapsed_pos"] else 0,
                      virtual=r["virtual"])
            if r["elapsed_pos"] and st["elapsed10"] == 0:
                st["elapsed10"] = 1
        elif ev == "Restart":
            st = dict(st, ev="Restart", restarts=r["restarts"], pending=r["st"], decided=r["decided"],
                      st=st["st"] if r["decided"] else r["st"])
        elif ev == "WorkerSend":
            if r["rc"] >= 0 and not r["err"]:
                st = dict(st, ev="WorkerSend", delivered=True)
            else:
                st = dict(st, ev="WorkerSendError")
        elif ev == "CmdReturn":
            st = dict(st, ev="Return", returned=True, rc=r["rc"])
        else:
            continue
        evs.append(st)
    if res["hung"]:
        evs.append(dict(st, ev="Hung", hung=True))
    elif not evs or not evs[-1]["returned"]:
        # the runner itself ended without CmdReturn (crashed): the command did not return a code
        evs.append(dict(st, ev="NoReturn", hung=False, returned=False))
    return {"init": init, "ev": evs}

"""Abstract consumer schedule -> real calls on pynguin's mutant enumerations; real tree -> projection.

One replay = one (module, mutator configuration, route) and a schedule of consumer actions
(start / next / exhaust / close / abandon / count) executed on the REAL `FirstOrderMutator`,
`HighOrderMutator` and `MutationController`.  Every real call becomes one event that records
what the real code did: `ast.dump` of the shared tree before/after (interned, 0 = the tree as
parsed), the state of the generator object, and for every yielded mutant the mutation
descriptors, the positions of the mutated nodes and the positions at which the mutant differs
from the original tree.  Nothing here decides a property: TLC evaluates MutantsTrace.tla on
the events.
"""

from __future__ import annotations

import ast
import contextlib
import gc
import importlib
import inspect
import io
import types

from pynguin.assertion.mutation_analysis import mutators as mu
from pynguin.assertion.mutation_analysis import operators as mo
from pynguin.assertion.mutation_analysis import strategies as ms
from pynguin.assertion.mutation_analysis.controller import MutationController
from pynguin.assertion.mutation_analysis.transformer import ParentNodeTransformer, create_module
from pynguin.utils import randomness

# --------------------------------------------------------------------------------------
# programs: tiny generated modules (all 28 registered operators occur) + pure stdlib modules
# --------------------------------------------------------------------------------------
SOURCES: dict[str, str] = {
    "empty": '''
def f():
    pass
''',
    "one": '''
def inc(a):
    return a + 1
''',
    "arith": '''
def arith(a, b):
    c = -a + b * a
    c -= b // a
    d = (a % b) ** c / (+b)
    return ~d


def bits(x, y):
    return (x & y) | (x ^ y) if x << y > y >> x else x
''',
    "logic": '''
def cmp(a, b, xs):
    if a < b and not a == b or a in xs:
        return True
    if a >= b or a is None or b is not None:
        return a != b
    return a not in xs and a <= b and a > b
''',
    "text": '''
def text(name, xs):
    """Docstring is not a mutation target."""
    s = "hello"
    t = f"{name}!"
    print("unobservable")
    return s + t + xs[1:2:3]
''',
    "loops": '''
def loops(xs, n):
    total = n
    for x in xs:
        if x < n:
            continue
        if x > n:
            break
        total += x
    while n:
        n -= total
        if n == total:
            break
    return total
''',
    "match": '''
def pick(v):
    match v:
        case 0:
            return v
        case 1:
            return -v
        case _:
            return None
''',
    "exc": '''
def guard(d, k):
    try:
        return d[k]
    except KeyError:
        raise ValueError("missing")
    except (TypeError, IndexError) as e:
        d = None
        return d
    except Exception:
        pass
    raise RuntimeError
''',
    "klass": '''
import functools


class Base:
    limit = None
    lo, hi = int, str

    def __init__(self, v=None):
        self.v = v

    def size(self, k, *args, scale=None, **kw):
        return self.v

    def name(self):
        return self


class Child(Base):
    limit = ()
    lo, hi = str, int

    def __init__(self, v=None):
        super().__init__(v)
        self.w = v

    def size(self, k, *args, scale=None, **kw):
        return k

    def name(self):
        self.w = None
        super().name()
        return self.w

    @staticmethod
    def make():
        return Child()

    @functools.lru_cache(maxsize=None)
    def cached(self):
        return self.w
''',
    "nested": '''
def outer(xs):
    def inner(y):
        if y:
            if y > xs:
                return [z * y for z in xs if z != y]
            return -y
        return None
    k = lambda q: q + xs
    out = []
    for x in xs:
        for y in xs:
            if x < y:
                out.append(inner(x) or k(y))
    return out
''',
}
TINY = list(SOURCES)
STDLIB = ["bisect", "heapq", "textwrap"]

ALL_OPERATORS = [*mo.standard_operators, *mo.experimental_operators]
REFINE_OPERATORS = [mo.ArithmeticOperatorReplacement, mo.RelationalOperatorReplacement,
                    mo.LogicalOperatorReplacement, mo.ConstantReplacement]
RNG_SEED = 20280

_STRATS = {"ftl": ms.FirstToLastHOMStrategy, "each": ms.EachChoiceHOMStrategy,
           "between": ms.BetweenOperatorsHOMStrategy, "random": ms.RandomHOMStrategy}

_programs: dict[str, tuple[str, types.ModuleType]] = {}


def program(name: str) -> tuple[str, types.ModuleType]:
    """(source text, real module object) of a program; stdlib modules are read from the stdlib."""
    if name not in _programs:
        if name in SOURCES:
            src = SOURCES[name]
            _programs[name] = (src, create_module(ast.parse(src), f"c28_{name}"))
        else:
            mod = importlib.import_module(name)
            _programs[name] = (inspect.getsource(mod), mod)
    return _programs[name]


# --------------------------------------------------------------------------------------
# mutator configurations  "<kind>:<...>"
#   fo:plain | fo:refine | fo:reorder | fo:cap<N>[:s<seed>][:reorder] | hom:<strategy>:<order>
# --------------------------------------------------------------------------------------
def parse_cfg(cfg: str) -> dict:
    parts = cfg.split(":")
    out = {"id": cfg, "cap": -1, "seed": 0, "reorder": False, "ops": "all", "strat": "", "order": 0}
    if parts[0] == "hom":
        out.update(kind="hom", strat=parts[1], order=int(parts[2]))
        return out
    for p in parts[1:]:
        if p == "plain":
            pass
        elif p == "refine":
            out["ops"] = "refine"
        elif p == "reorder":
            out["reorder"] = True
        elif p.startswith("cap"):
            out["cap"] = int(p[3:])
        elif p.startswith("s"):
            out["seed"] = int(p[1:])
        else:
            raise ValueError(cfg)
    out["kind"] = "plain" if out["cap"] < 0 and not out["reorder"] else "select"
    return out


def make_mutator(c: dict) -> mu.Mutator:
    ops = ALL_OPERATORS if c["ops"] == "all" else REFINE_OPERATORS
    if c["kind"] == "hom":
        return mu.HighOrderMutator(list(ops), hom_strategy=_STRATS[c["strat"]](c["order"]))
    return mu.FirstOrderMutator(list(ops), maximum_mutants=c["cap"], sampling_seed=c["seed"],
                                reorder=c["reorder"])


# --------------------------------------------------------------------------------------
# projection of the real tree
# --------------------------------------------------------------------------------------
def _paths(tree: ast.AST) -> dict[int, tuple[int, ...]]:
    """id(node) -> position (field index[, list index] ...) of every node of the tree as parsed."""
    out: dict[int, tuple[int, ...]] = {}
    stack = [(tree, ())]
    while stack:
        node, path = stack.pop()
        out[id(node)] = path
        for fi, name in enumerate(node._fields):
            v = getattr(node, name, None)
            if isinstance(v, list):
                for k, el in enumerate(v):
                    if isinstance(el, ast.AST):
                        stack.append((el, (*path, fi, k)))
            elif isinstance(v, ast.AST):
                stack.append((v, (*path, fi)))
    return out


def _shape(node):
    """Immutable structural copy of a tree (what `ast.dump` prints, kept as nested tuples)."""
    if isinstance(node, ast.AST):
        return (type(node).__name__,
                tuple(_shape(getattr(node, f, None)) for f in node._fields))
    if isinstance(node, list):
        return ("[]", tuple(_shape(x) for x in node))
    return ("=", type(node).__name__, repr(node))


def _diff(node, shape, path: tuple[int, ...], out: list) -> None:
    """Positions (top-most) at which the live tree differs from the recorded shape."""
    if type(node).__name__ != shape[0]:
        out.append(path)
        return
    fields = shape[1]
    here = False
    todo = []
    for fi, name in enumerate(node._fields):
        v = getattr(node, name, None)
        s = fields[fi]
        if isinstance(v, list):
            if s[0] != "[]" or len(s[1]) != len(v):
                here = True
                break
            for k, el in enumerate(v):
                if isinstance(el, ast.AST):
                    if s[1][k][0] in ("[]", "="):
                        here = True
                        break
                    todo.append((el, s[1][k], (*path, fi, k)))
                elif _shape(el) != s[1][k]:
                    here = True
                    break
            if here:
                break
        elif isinstance(v, ast.AST):
            if s[0] in ("[]", "="):
                here = True
                break
            todo.append((v, s, (*path, fi)))
        elif _shape(v) != s:
            here = True
            break
    if here:
        out.append(path)
        return
    for el, s, p in todo:
        _diff(el, s, p, out)


class Subject:
    """A freshly parsed tree of one program plus everything needed to project it."""

    def __init__(self, name: str) -> None:
        self.name = name
        self.src, self.module = program(name)
        self.tree = ParentNodeTransformer.create_ast(self.src)
        self.paths = _paths(self.tree)
        self.shape = _shape(self.tree)

    def dump(self) -> str:
        return ast.dump(self.tree)

    def dump_attrs(self) -> str:
        return ast.dump(self.tree, include_attributes=True)

    def descriptor(self, m) -> tuple:
        return (m.operator.__name__, m.visitor_name, self.paths.get(id(m.node), (-1,)),
                ast.dump(m.replacement_node))

    def diff(self, mutant: ast.AST) -> list[tuple[int, ...]]:
        out: list = []
        _diff(mutant, self.shape, (), out)
        return out


# --------------------------------------------------------------------------------------
# reference enumerations (recorded from the real code on their own fresh tree)
# --------------------------------------------------------------------------------------
_reference: dict[tuple[str, str], dict] = {}


def reference(name: str, cfg: str) -> dict:
    """Descriptors of the full first-order enumeration of the configuration's operator list and
    the groups the un-truncated enumeration of this mutator kind yields."""
    key = (name, cfg)
    if key in _reference:
        return _reference[key]
    c = parse_cfg(cfg)
    ops = "all" if c["ops"] == "all" else "refine"
    fkey = (name, f"__full_{ops}")
    if fkey not in _reference:
        sub = Subject(name)
        plain = mu.FirstOrderMutator(list(ALL_OPERATORS if ops == "all" else REFINE_OPERATORS))
        full, err = [], ""
        try:                      # a broken enumeration must end as a verdict on a schedule, not here
            for muts, _ in plain.mutate(sub.tree, sub.module):
                full.append(sub.descriptor(muts[0]))
        except Exception as ex:  # noqa: BLE001
            err = type(ex).__name__
        _reference[fkey] = {"full": full, "err": err}
    full = _reference[fkey]["full"]
    err = _reference[fkey]["err"]
    if c["kind"] == "hom":
        sub = Subject(name)
        randomness.RNG.seed(RNG_SEED)
        groups = []
        try:
            for muts, _ in make_mutator(c).mutate(sub.tree, sub.module):
                groups.append([sub.descriptor(m) for m in muts])
        except Exception as ex:  # noqa: BLE001
            err = err or type(ex).__name__
    else:
        groups = [[d] for d in full]
    _reference[key] = {"full": full, "groups": groups, "err": err}
    return _reference[key]


# --------------------------------------------------------------------------------------
# replay
# --------------------------------------------------------------------------------------
class _Session:
    def __init__(self, name: str, cfg: str, route: str) -> None:
        self.name, self.cfg, self.route = name, cfg, route
        self.c = parse_cfg(cfg)
        ref = reference(name, cfg)
        self.intern: dict[tuple, int] = {}
        self.full = [self._id(d) for d in ref["full"]]
        self.ref = [[self._id(d) for d in g] for g in ref["groups"]]
        self.ref_err = ref["err"]
        self.trees: dict[str, int] = {}
        self.attr0: str | None = None
        self.attr_changed = False
        self.events: list[dict] = []
        self.gen = None
        self.st = "none"
        self.base = 0
        self.seen: list[int] = []
        self.identical = 0
        self.last: int | None = None
        self._fresh_subject()

    def _id(self, d: tuple) -> int:
        return self.intern.setdefault(d, len(self.intern) + 1)

    def _fresh_subject(self) -> None:
        self.sub = Subject(self.name)
        self.mutator = make_mutator(self.c)
        self.controller = MutationController(self.mutator, self.sub.tree, self.sub.module)
        d = self.sub.dump()
        self.trees.setdefault(d, 0 if not self.trees else len(self.trees))
        if self.attr0 is None:
            self.attr0 = self.sub.dump_attrs()

    def tree_id(self, fresh: bool = True) -> int:
        """Interned `ast.dump` of the shared tree (0 = as parsed).  `fresh=False` returns the id
        observed after the previous event (nothing ran in between)."""
        if not fresh and self.last is not None:
            return self.last
        d = self.sub.dump()
        tid = self.trees.setdefault(d, len(self.trees))
        if tid == 0 and self.st != "susp" and self.sub.dump_attrs() != self.attr0:
            self.attr_changed = True
        self.last = tid
        return tid

    def event(self, op: str, was: str, pre: int, **kw) -> dict:
        ev = {"op": op, "was": was, "st": self.st, "pre": pre, "post": self.tree_id(),
              "base": self.base, "rt": "none", "exc": "", "muts": [], "mpaths": [], "dpaths": [],
              "n": 0, "seen": [], "k": 0, "ops": []}
        ev.update(kw)
        self.events.append(ev)
        return ev

    # -- consumer actions -----------------------------------------------------------
    def start(self) -> None:
        pre = self.tree_id(fresh=False)
        was = self.st
        randomness.RNG.seed(RNG_SEED)
        if self.route == "ctl":
            self.gen = self.controller.create_mutants()
        else:
            self.gen = self.mutator.mutate(self.sub.tree, self.sub.module)
        self.st = "fresh"
        self.base = pre
        self.seen = []
        self.event("start", was, pre)

    def skip(self, op: str) -> str:
        """The schedule asks for an action on an enumeration object that no longer exists."""
        self.event("skip", self.st, self.tree_id(fresh=False), exc=op)
        return "skip"

    def next(self, k: int = 0) -> str:
        if self.gen is None:
            return self.skip("next")
        pre = self.tree_id(fresh=False)
        was = self.st
        try:
            # MutationController executes the mutant module; mutated `__name__ == "__main__"` guards print
            with contextlib.redirect_stdout(io.StringIO()):
                item = next(self.gen)
        except StopIteration:
            self.st = "done"
            self.event("next", was, pre, rt="stop", seen=list(self.seen), k=k)
            return "stop"
        except Exception as ex:  # noqa: BLE001 - whatever the real code raises is recorded
            self.st = "raised"
            self.event("next", was, pre, rt="exc", exc=type(ex).__name__, seen=list(self.seen), k=k)
            return "exc"
        if self.route == "ctl":
            _module, muts = item
            mutant = self.sub.tree
        else:
            muts, mutant = item
        self.st = "susp"
        ids = [self._id(self.sub.descriptor(m)) for m in muts]
        self.seen.extend(ids)
        dpaths = [list(p) for p in self.sub.diff(mutant)]
        if not dpaths:
            self.identical += 1
        self.event("next", was, pre, rt="mutant", muts=ids, k=k,
                   ops=[m.operator.__name__ for m in muts],
                   mpaths=[list(self.sub.paths.get(id(m.node), (-1,))) for m in muts],
                   dpaths=dpaths)
        return "mutant"

    def close(self) -> None:
        if self.gen is None:
            self.skip("close")
            return
        pre = self.tree_id(fresh=False)
        was = self.st
        exc = ""
        try:
            self.gen.close()
        except Exception as ex:  # noqa: BLE001
            exc = type(ex).__name__
        self.st = "closed"
        self.event("close", was, pre, exc=exc, rt="exc" if exc else "none")

    def abandon(self) -> None:
        """Drop the only reference to the generator object and let the collector run."""
        if self.gen is None:
            self.skip("abandon")
            return
        pre = self.tree_id(fresh=False)
        was = self.st
        self.gen = None
        gc.collect()
        self.st = "abandoned"
        self.event("abandon", was, pre)

    def count(self) -> None:
        pre = self.tree_id(fresh=False)
        was = self.st
        self.base = pre
        randomness.RNG.seed(RNG_SEED)   # as in start(): RandomHOMStrategy shuffles with the global RNG
        try:
            if self.route == "ctl":
                n = self.controller.mutant_count()
            else:
                n = self.mutator.mutation_count(self.sub.tree, self.sub.module)
            self.event("count", was, pre, rt="count", n=int(n))
        except Exception as ex:  # noqa: BLE001
            self.event("count", was, pre, rt="exc", exc=type(ex).__name__)

    def reset_if_damaged(self) -> None:
        """Harness action, recorded: once a quiescent tree is not the original any more the rest
        of the schedule continues on a freshly parsed tree (so later events are judged on their
        own and not as consequences of the first damage)."""
        if self.st in ("fresh", "susp"):
            return
        pre = self.tree_id(fresh=False)
        if pre == 0:
            return
        self._fresh_subject()
        self.last = None
        self.gen = None
        was = self.st
        self.st = "none"
        self.base = 0
        self.event("reset", was, pre)


def replay(beh: dict) -> dict:
    """beh = {"mod", "cfg", "route", "hist": [{"op", "k"}...]} -> recorded trace."""
    s = _Session(beh["mod"], beh["cfg"], beh["route"])
    for act in beh["hist"]:
        op = act["op"]
        if op == "start":
            s.start()
        elif op == "next":
            for i in range(act["k"]):
                if s.next(i + 1) != "mutant":
                    break
        elif op == "exhaust":
            i = 0
            while True:
                i += 1
                if s.next(i) != "mutant":
                    break
        elif op == "close":
            s.close()
        elif op == "abandon":
            s.abandon()
        elif op == "count":
            s.count()
        else:
            raise ValueError(op)
        s.reset_if_damaged()
    c = s.c
    return {"mod": s.name, "cfg": s.cfg, "route": s.route, "kind": c["kind"], "cap": c["cap"],
            "full": s.full, "ref": s.ref, "ev": s.events,
            "meta": {"identical_mutants": s.identical, "attr_changed": s.attr_changed,
                     "reference_raised": s.ref_err}}

"""C04/C01b/C05 adapter: drive the real ExecutionTracer callbacks with value representatives."""

from __future__ import annotations

import math
import operator

from harness.adapters import values as V

PY = {
    "LT": operator.lt, "LE": operator.le, "EQ": operator.eq, "NE": operator.ne,
    "GT": operator.gt, "GE": operator.ge,
    "IN": lambda a, b: a in b, "NOT_IN": lambda a, b: a not in b,
    "IS": operator.is_, "IS_NOT": operator.is_not,
    "IN_PRESENCE": lambda a, b: a in b,
}


def tag(d) -> str:
    if d is None:
        return "NONE"
    try:
        if isinstance(d, float) and math.isnan(d):
            return "NAN"
        if d != d:  # noqa: PLR0124
            return "NAN"
        if d == 0:
            return "Z"
        if d < 0:
            return "NEG"
        if d == math.inf:
            return "INF"
        return "P"
    except Exception:  # noqa: BLE001
        return "NAN"


def py_outcome(kind: str, a, b):
    """Outcome of Python's own operator used as a branch condition."""
    try:
        if kind == "IN_PRESENCE":
            # auxiliary guidance for container[key]: the program performs no membership test;
            # membership is "not in" when it is undefined or would consume an iterator
            import collections.abc as cabc  # noqa: PLC0415
            try:
                r = (not isinstance(b, cabc.Iterator)) and bool(a in b)
            except Exception:  # noqa: BLE001
                r = False
        elif kind == "BOOL":
            r = bool(a)
        elif kind == "EXC_MATCH":
            err = a if isinstance(a, type) else type(a)
            r = issubclass(err, b)
        else:
            r = bool(PY[kind](a, b))
        return ("T" if r else "F"), ""
    except BaseException as ex:  # noqa: BLE001
        return "Raise", type(ex).__name__


def _consumed(*objs) -> int:
    return sum(getattr(o, "consumed", 0) for o in objs)


def evaluate(case: dict) -> dict:
    from pynguin.instrumentation import PynguinCompare  # noqa: PLC0415
    from pynguin.instrumentation.tracer import ExecutionTracer  # noqa: PLC0415

    kind, an, bn = case["kind"], case["a"], case["b"]
    # 1. the original program's behaviour on fresh values
    a0, b0 = V.make(an), (V.make(bn) if bn != "-" else None)
    if an == bn and case.get("same"):
        b0 = a0
    V.LOG.clear()
    py, py_exc = py_outcome(kind, a0, b0)
    calls_orig = sorted(set(V.LOG))
    consumed_orig = _consumed(a0, b0)
    # 2. the tracer callback on fresh values
    a1, b1 = V.make(an), (V.make(bn) if bn != "-" else None)
    if an == bn and case.get("same"):
        b1 = a1
    tracer = ExecutionTracer()
    tracer.__enter__()
    tracer.init_trace()
    V.LOG.clear()
    raised, raised_exc = False, ""
    try:
        if kind == "BOOL":
            tracer.executed_bool_predicate(a1, 0)
        elif kind == "EXC_MATCH":
            tracer.executed_exception_match(a1, b1, 0)
        elif kind == "IN_PRESENCE":
            tracer.executed_in_presence_predicate(a1, b1, 0)
        else:
            tracer.executed_compare_predicate(a1, b1, 0, PynguinCompare[kind])
            if kind in ("IN", "NOT_IN") and hasattr(tracer, "executed_membership_outcome"):
                # the instrumentation places a second probe behind a membership test: the subject's own
                # operation runs in between (here: on the very same objects) and its result is passed on;
                # when the operation raises, the second probe is never reached
                try:
                    subject = (a1 in b1) if kind == "IN" else (a1 not in b1)
                except BaseException:  # noqa: BLE001
                    pass
                else:
                    tracer.executed_membership_outcome(subject, 0)
    except BaseException as ex:  # noqa: BLE001
        raised, raised_exc = True, type(ex).__name__
    calls_tracer = sorted(set(V.LOG))
    tr = tracer.get_trace()
    dT = tr.true_distances.get(0)
    dF = tr.false_distances.get(0)
    enabled_after = not tracer.is_disabled()
    # 3. does tracing still record afterwards? (C05)
    recorded_after = False
    try:
        tracer.track_line_visit(7)
        recorded_after = 7 in tracer.get_trace().covered_line_ids
    except BaseException:  # noqa: BLE001
        recorded_after = False
    extra = [c for c in calls_tracer if c not in calls_orig]
    return {
        "kind": kind, "a": an, "b": bn, "py": py, "py_exc": py_exc,
        "dT": tag(dT), "dF": tag(dF), "raised": raised, "raised_exc": raised_exc,
        "enabled_after": enabled_after, "recorded_after": recorded_after,
        "extra_calls": extra, "consumed": _consumed(a1, b1), "consumed_orig": consumed_orig,
        "cnt": int(tr.executed_predicates.get(0, 0)),
    }

"""Drive TLC / SANY and parse what they print.

Everything the checks know about a TLC run comes from TLC's own output: the number of
generated/distinct states, per-action coverage, PrintT lines and the error blocks of
violated invariants / action properties.  Nothing here decides a property.
"""

from __future__ import annotations

import json
import os
import re
import shutil
import subprocess
import time
from dataclasses import dataclass, field
from pathlib import Path

SPEC_DIR = Path(__file__).resolve().parent.parent / "spec"
JAR = "/opt/veriftools/tla/tla2tools.jar"
DEPS = "/opt/veriftools/tla/CommunityModules-deps.jar"


class MachineryError(RuntimeError):
    """TLC / parser / harness failure: never a property verdict (exit code 2)."""


@dataclass
class Violation:
    kind: str  # "invariant" | "action" | "temporal" | "deadlock" | "assert"
    name: str
    states: list[dict[str, str]]  # last states of the counterexample, var -> TLA+ text

    def var(self, name: str, which: int = -1) -> str | None:
        if not self.states:
            return None
        return self.states[which].get(name)


@dataclass
class TlcResult:
    ok: bool
    generated: int = 0
    distinct: int = 0
    depth: int = 0
    wall_s: float = 0.0
    violations: list[Violation] = field(default_factory=list)
    prints: list[str] = field(default_factory=list)
    coverage: dict[str, int] = field(default_factory=dict)
    output: str = ""
    cmd: str = ""


_STATE_HDR = re.compile(r"^State (\d+): ?(.*)$")
_VAR_LINE = re.compile(r"^/\\ (\w+) = (.*)$")


def _parse_states(lines: list[str]) -> list[dict[str, str]]:
    states: list[dict[str, str]] = []
    cur: dict[str, str] | None = None
    last_var: str | None = None
    for ln in lines:
        m = _STATE_HDR.match(ln)
        if m:
            cur = {"_action": m.group(2)}
            states.append(cur)
            last_var = None
            continue
        if cur is None:
            continue
        m = _VAR_LINE.match(ln)
        if m:
            cur[m.group(1)] = m.group(2)
            last_var = m.group(1)
        elif ln.strip() == "":
            last_var = None
        elif last_var is not None and not ln.startswith(("Error", "Finished", "Model")):
            cur[last_var] += " " + ln.strip()
        elif "=" in ln and cur is not None and not ln.startswith("/\\") and len(cur) == 1:
            # single-variable states are printed as `x = 1`
            k, _, v = ln.partition(" = ")
            if re.fullmatch(r"\w+", k.strip()):
                cur[k.strip()] = v
                last_var = k.strip()
    return states


def parse_output(out: str) -> TlcResult:
    res = TlcResult(ok=True, output=out)
    lines = out.splitlines()
    i = 0
    n = len(lines)
    while i < n:
        ln = lines[i]
        m = re.match(r"^(\d+) states generated, (\d+) distinct states found", ln)
        if m:
            res.generated = int(m.group(1))
            res.distinct = int(m.group(2))
        m = re.match(r"^The depth of the complete state graph search is (\d+)", ln)
        if m:
            res.depth = int(m.group(1))
        m = re.match(r"^<(\w+) line \d+, col \d+ to line \d+, col \d+ of module (\w+)>: (\d+):(\d+)", ln)
        if m:
            res.coverage[m.group(1)] = res.coverage.get(m.group(1), 0) + int(m.group(4))
        vio = None
        m = re.match(r"^Error: Invariant (\S+) is violated", ln)
        if m:
            vio = Violation("invariant", m.group(1), [])
        m = re.match(r"^Error: Action property (\S+) is violated", ln)
        if m:
            vio = Violation("action", m.group(1), [])
        if re.match(r"^Error: Temporal properties were violated", ln):
            vio = Violation("temporal", "temporal", [])
        if re.match(r"^Error: Deadlock reached", ln):
            vio = Violation("deadlock", "deadlock", [])
        if vio is not None:
            j = i + 1
            block: list[str] = []
            while j < n:
                l2 = lines[j]
                if re.match(r"^Error: (Invariant|Action property|Temporal|Deadlock)", l2):
                    break
                if re.match(r"^(\d+ states generated|Finished|Progress\()", l2):
                    break
                block.append(l2)
                j += 1
            vio.states = _parse_states(block)
            if not vio.states and "violated by the initial state" in ln:
                # TLC prints the offending initial state without a `State 1:` header
                vio.states = _parse_states(["State 1: <Initial predicate>", *block])
            res.violations.append(vio)
            res.ok = False
            i = j
            continue
        if ln.startswith("<<") or ln.startswith('"'):
            res.prints.append(ln)
        i += 1
    return res


def run_tlc(
    module: str,
    cfg: str | Path | None = None,
    *,
    workdir: Path,
    workers: int | str = 6,
    env: dict[str, str] | None = None,
    timeout: int = 900,
    cont: bool = False,
    coverage: bool = False,
    simulate: str | None = None,
    depth: int | None = None,
    seed: int | None = None,
    deadlock: bool = False,
    dfs: bool = False,
    extra_modules: tuple[str, ...] = (),
) -> TlcResult:
    """Run TLC on spec/<module>.tla inside *workdir* (specs are copied there)."""
    workdir.mkdir(parents=True, exist_ok=True)
    for p in SPEC_DIR.glob("*.tla"):
        shutil.copy2(p, workdir / p.name)
    cfg_path = Path(cfg) if cfg else SPEC_DIR / f"{module}.cfg"
    if not cfg_path.is_absolute() and not cfg_path.exists():
        cfg_path = SPEC_DIR / cfg_path
    shutil.copy2(cfg_path, workdir / f"{module}.run.cfg")
    meta = workdir / f"meta-{module}-{os.getpid()}-{time.time_ns()}"
    cmd = ["java", "-XX:+UseParallelGC", "-Xss16m"]
    if str(workers) == "1":
        cmd += ["-XX:ParallelGCThreads=2", "-Xmx2g", "-XX:-UsePerfData"]
    if dfs:
        cmd.append("-Dtlc2.tool.queue.IStateQueue=StateDeque")
    cmd += ["-cp", f"{JAR}:{DEPS}", "tlc2.TLC", "-metadir", str(meta), "-noGenerateSpecTE",
            "-config", f"{module}.run.cfg", "-workers", str(workers), "-fpmem", "0.02"]
    if cont:
        cmd.append("-continue")
    if coverage:
        cmd += ["-coverage", "1"]
    if not deadlock:
        cmd.append("-deadlock")  # disables deadlock checking
    if simulate is not None:
        cmd += ["-simulate", simulate]
    if depth is not None:
        cmd += ["-depth", str(depth)]
    if seed is not None:
        cmd += ["-seed", str(seed)]
    cmd.append(f"{module}.tla")
    e = dict(os.environ)
    e.pop("JAVA_TOOL_OPTIONS", None)
    if env:
        e.update(env)
    t0 = time.time()
    try:
        p = subprocess.run(cmd, cwd=workdir, env=e, capture_output=True, text=True, timeout=timeout)
    except subprocess.TimeoutExpired as ex:
        raise MachineryError(f"TLC timed out after {timeout}s on {module}") from ex
    finally:
        shutil.rmtree(meta, ignore_errors=True)
    out = p.stdout + ("\n" + p.stderr if p.stderr.strip() else "")
    res = parse_output(out)
    res.wall_s = time.time() - t0
    res.cmd = " ".join(cmd)
    if p.returncode not in (0, 11, 12, 13):
        (workdir / f"{module}.tlc.out").write_text(out)
        raise MachineryError(f"TLC exit {p.returncode} on {module}; output in {workdir}/{module}.tlc.out\n"
                             + "\n".join(out.splitlines()[-30:]))
    if p.returncode != 0 and not res.violations:
        (workdir / f"{module}.tlc.out").write_text(out)
        raise MachineryError(f"TLC exit {p.returncode} on {module} but no violation parsed\n"
                             + "\n".join(out.splitlines()[-30:]))
    return res


def sany(module: str, workdir: Path) -> None:
    workdir.mkdir(parents=True, exist_ok=True)
    for p in SPEC_DIR.glob("*.tla"):
        shutil.copy2(p, workdir / p.name)
    p = subprocess.run(["java", "-cp", f"{JAR}:{DEPS}", "tla2sany.SANY", f"{module}.tla"],
                       cwd=workdir, capture_output=True, text=True, timeout=120)
    if p.returncode != 0 or "error" in p.stdout.lower().replace("semantic errors:\n\n", ""):
        if re.search(r"\*\*\* Errors|Fatal errors|Could not find module|Parse Error", p.stdout):
            raise MachineryError(f"SANY failed on {module}:\n{p.stdout[-2000:]}")


# --------------------------------------------------------------------------------------
# TLA+ value text -> Python (for PrintT lines and counterexample variables)
# --------------------------------------------------------------------------------------

_TOK = re.compile(r"""\s*(<<|>>|\[|\]|\{|\}|\(|\)|\|->|:>|@@|,|"(?:[^"\\]|\\.)*"|-?\d+|\w+)""")


def parse_tla_value(text: str):
    toks = _TOK.findall(text)
    pos = 0

    def peek():
        return toks[pos] if pos < len(toks) else None

    def take(t=None):
        nonlocal pos
        tok = toks[pos]
        if t is not None and tok != t:
            raise MachineryError(f"TLA value parse: expected {t} got {tok} in {text[:200]}")
        pos += 1
        return tok

    def value():
        v = atom()
        while peek() in (":>", "@@"):
            # function literal  a :> b @@ c :> d
            if peek() == ":>":
                take()
                rhs = atom()
                v = {_key(v): rhs}
            else:
                take()
                k = atom()
                take(":>")
                rhs = atom()
                if not isinstance(v, dict):
                    raise MachineryError("bad @@")
                v[_key(k)] = rhs
        return v

    def _key(k):
        return k if isinstance(k, (str, int)) else json.dumps(k)

    def atom():
        t = take()
        if t == "<<":
            items = []
            while peek() != ">>":
                items.append(value())
                if peek() == ",":
                    take()
            take(">>")
            return items
        if t == "{":
            items = []
            while peek() != "}":
                items.append(value())
                if peek() == ",":
                    take()
            take("}")
            return {"__set__": items}
        if t == "(":
            v = value()
            take(")")
            return v
        if t == "[":
            rec = {}
            while peek() != "]":
                k = take()
                take("|->")
                rec[k] = value()
                if peek() == ",":
                    take()
            take("]")
            return rec
        if t.startswith('"'):
            return json.loads(t)
        if re.fullmatch(r"-?\d+", t):
            return int(t)
        if t == "TRUE":
            return True
        if t == "FALSE":
            return False
        return t

    v = value()
    return v

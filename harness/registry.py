"""Single table from which MANIFEST.json is generated (tools/gen_manifest.py)."""

CHECKS = {
    "C34": dict(
        category="model_checking",
        text="Design model OrderedSet.tla checked exhaustively by TLC (sequence semantics implements a "
             "mathematical set in first-insertion order, sequence protocol incl. negative indices, set "
             "algebra); every (content, call, argument kind) transition of the model and random multi-call "
             "histories are replayed on the real OrderedSet/FrozenOrderedSet/OrderedTypeSet and every "
             "recorded call is validated by TLC against the same Post/Res operators (OrderedSetTrace.tla).",
        note="Universe of 3 elements, arguments up to length 2 (lists, sets, ordered sets, one-shot "
             "generators); elements are hashable with value equality. Trusted: TLC, the adapter's projection "
             "list(obj).",
        technique="TLA+ spec + TLC exhaustive; spec->code replay of every model transition; TLC trace validation",
        design_ref="5/C34, 4.13",
    ),
}

NOT_BUILT_REASON = "not built yet in this round (planned, see DESIGN.md section 5); no claim is made"
NOT_APPLICABLE = {}

"""Single table from which MANIFEST.json is generated (tools/gen_manifest.py)."""

CHECKS = {
    "C34": dict(
        category="model_checking",
        text="Design model OrderedSet.tla checked exhaustively by TLC (sequence semantics implements a "
             "mathematical set in first-insertion order, sequence protocol incl. negative indices, set "
             "algebra); every (content, call, argument kind) transition of the model and random multi-call "
             "histories are replayed on the real OrderedSet/FrozenOrderedSet/OrderedTypeSet and every "
             "recorded call is validated by TLC against the same Post/Res operators (OrderedSetTrace.tla).",
        note="Universe of 3 elements, arguments up to length 2 (lists, sets, ordered sets, one-shot "
             "generators); elements are hashable with value equality. Trusted: TLC, the adapter's projection "
             "list(obj).",
        technique="TLA+ spec + TLC exhaustive; spec->code replay of every model transition; TLC trace validation",
        design_ref="5/C34, 4.13",
    ),
    "C33": dict(
        category="model_checking",
        text="MasterWorker.tla models the restart protocol (start, worker phases, death = EOF without "
             "message, raise = error result, adjust search time, restart or give up, client mapping) and TLC "
             "checks it exhaustively incl. the liveness property Returns under fairness. Fault plans "
             "enumerated by TLC are injected into the real run_pynguin_with_master_worker (forked workers die "
             "by os._exit/SIGKILL or raise at each pipeline phase, repeatedly; virtual and real master clock); "
             "every run's master/worker events are validated by TLC (MasterWorkerTrace.tla: Returns, "
             "RestartGuard, StrictDecrease, NoRestartUnlimited, SuccessOnlyIfDelivered).",
        note="Sampled fault plans (stratified from the model's 15k plans) run for real; death is injected at "
             "phase boundaries and at the 3rd test execution of the search; a hang is detected by an outer "
             "watchdog (240 s). Orphaned grandchildren keeping the pipe open are not modelled.",
        technique="TLA+ spec + TLC (safety+liveness); TLC-generated fault plans replayed on real processes; TLC trace validation",
        design_ref="4.1, 5/C33",
    ),
}

NOT_BUILT_REASON = "not built yet in this round (planned, see DESIGN.md section 5); no claim is made"
NOT_APPLICABLE = {}

"""Single table from which MANIFEST.json is generated (tools/gen_manifest.py)."""

CHECKS = {
    "C34": dict(
        category="model_checking",
        text="Design model OrderedSet.tla checked exhaustively by TLC (sequence semantics implements a "
             "mathematical set in first-insertion order, sequence protocol incl. negative indices, set "
             "algebra); every (content, call, argument kind) transition of the model and random multi-call "
             "histories are replayed on the real OrderedSet/FrozenOrderedSet/OrderedTypeSet and every "
             "recorded call is validated by TLC against the same Post/Res operators (OrderedSetTrace.tla).",
        note="Universe of 3 elements, arguments up to length 2 (lists, sets, ordered sets, one-shot "
             "generators); elements are hashable with value equality. Trusted: TLC, the adapter's projection "
             "list(obj).",
        technique="TLA+ spec + TLC exhaustive; spec->code replay of every model transition; TLC trace validation",
        design_ref="5/C34, 4.13",
    ),
    "C33": dict(
        category="model_checking",
        text="MasterWorker.tla models the restart protocol (start, worker phases, death = EOF without "
             "message, raise = error result, adjust search time, restart or give up, client mapping) and TLC "
             "checks it exhaustively incl. the liveness property Returns under fairness. Fault plans "
             "enumerated by TLC are injected into the real run_pynguin_with_master_worker (forked workers die "
             "by os._exit/SIGKILL or raise at each pipeline phase, repeatedly; virtual and real master clock); "
             "every run's master/worker events are validated by TLC (MasterWorkerTrace.tla: Returns, "
             "RestartGuard, StrictDecrease, NoRestartUnlimited, SuccessOnlyIfDelivered).",
        note="Sampled fault plans (stratified from the model's 15k plans) run for real; death is injected at "
             "phase boundaries and at the 3rd test execution of the search; a hang is detected by an outer "
             "watchdog (240 s). Orphaned grandchildren keeping the pipe open are not modelled.",
        technique="TLA+ spec + TLC (safety+liveness); TLC-generated fault plans replayed on real processes; TLC trace validation",
        design_ref="4.1, 5/C33",
    ),
    "C32": dict(
        category="model_checking",
        text="Executor.tla models TestCaseExecutor.execute's thread protocol (spawn, join/timeout = tracer.stop(), "
             "second join, per-thread trace, tracer ownership `cur`, check() before every callback and statement, "
             "non-atomic check/record, unwinding of aborted threads) and TLC checks NoPollution, "
             "ResultIsOwnTrace and the liveness properties TimeoutReported / ExecuteReturns over all "
             "interleavings. All harness-enforceable schedules of the model (which test case blocks, spins, "
             "naps or raises; when each blocked call is released: in time, after its timeout, while a later "
             "test runs, after everything) are replayed on the real TestCaseExecutor with generated "
             "instrumented SUT functions and gates; TLC validates the real results (ExecutorTrace.tla). Every third schedule runs on the TypeTracingTestCaseExecutor (terminating test cases are executed twice, timed-out ones must not be: NoReexecutionAfterTimeout, counted by an uninstrumented entry counter, independent of machine load).",
        note="Timeout 0.25 s, grace 6 s. Races inside instrumented code (the check/record window) are "
             "explored in the model only; replay controls threads at uninstrumented blocking points. "
             "The model also exhibits the NoSpuriousTimeout hazard (late unwinding aborts the current test), "
             "which C32 does not forbid; it is reported in evidence only.",
        technique="TLA+ spec + TLC (safety+liveness, what-if variants); schedule replay on real threads; TLC trace validation",
        design_ref="4.2, 5/C32",
    ),
    "C04": dict(
        category="model_checking",
        text="TracerOps/Tracer.tla specify the tracer's distance bookkeeping over an abstract distance domain "
             "(zero / positive / inf vs NaN / negative / missing) and TLC checks the design. TLC enumerates every "
             "comparison kind x pair of 80 value classes (plus truthiness, exception matching, identity of the "
             "same object, the auxiliary subscript predicate): 60k cases, each executed on the real "
             "ExecutionTracer callbacks with concrete representatives; TLC evaluates WellFormed / "
             "RaisesOnlyIfOpRaises on the observed distances with Python's own operator as reference. Value classes include user classes whose == and != are not complementary.",
        note="Case partition with one representative per class and boundary members; not all floats/ints are "
             "enumerated and the numeric accuracy of non-zero distances is not claimed.",
        technique="TLA+ spec of the abstract distance domain + TLC case enumeration replayed on the real tracer; TLC trace validation",
        design_ref="4.3, 5/C04",
    ),
    "C05": dict(
        category="model_checking",
        text="Tracer.tla models the enabled flag across callbacks that raise (with and without restoring on the "
             "error path; the variant without must violate EnabledRestored). (a) every C04 case as a single real "
             "tracer callback: flag restored and a following line visit recorded; (b) TLC enumerates test cases "
             "(statement sequences; 13 ways in which traced code raises or must not raise; caught by the SUT or "
             "escaping) that run on the real TestCaseExecutor with generated instrumented modules; TLC validates "
             "the observed per-statement flags, the lines/predicates executed after the catch and the reported "
             "exceptions (TracerProgTrace.tla). (c) idiom and stdlib corpus under BRANCH+LINE and BRANCH+LINE+CHECKED: in every execution in which the interpreter raised inside the module (RAISE event) lines and branch outcomes reported equal the interpreter's, and the tracer is enabled afterwards (IdiomTrace.tla RecordingContinuesLines/Outcomes, EnabledRestored).",
        note="The enabled flag is read in the executing thread by wrapping the executor's statement hooks at run "
             "time; BRANCH+LINE instrumentation; statement sequences of length <= 2 (quick) / 3 (thorough).",
        technique="TLA+ spec + TLC; TLC-enumerated programs replayed on the real executor; TLC trace validation",
        design_ref="4.3, 5/C05",
    ),
    "C30": dict(
        category="model_checking",
        text="ProcState.tla models the process state touched by in-process execution (stream redirection, shared "
             "null file, OS descriptors and their saved duplicates, logging.disable level, Pynguin's own RNG, the "
             "SUT's `random` stream reseeded per test, hidden SUT globals) with the executor's Enter/Exit bracket; "
             "TLC checks Restored/NoCarryOver exhaustively and the variant of an executor that does not restore "
             "logging / reopen the null file must violate them. Histories of test cases enumerated by TLC "
             "(MC_ProcState: print, raise, close stdout, close fd 1, logging.disable, random.seed, random draw, "
             "mutate global) run on the real TestCaseExecutor, each history in a freshly forked process; TLC "
             "validates the projected process state after every execute() and that each result equals the result "
             "of the same test case executed alone (ProcStateTrace.tla).",
        note="'As before' = identity of sys.stdout/sys.stderr, fstat of fds 0-2, logging.root.manager.disable, "
             "randomness.RNG.getstate(). Result = timeout, exception types by position, covered lines, predicate "
             "outcomes. Test cases touching a SUT module global are hidden state and exempt from order independence.",
        technique="TLA+ spec + TLC exhaustive (with a must-fail variant); TLC histories replayed on the real executor; TLC trace validation",
        design_ref="4.2, 5/C30",
    ),
    "C17": dict(
        category="model_checking",
        text="Search.tla models the loop shape shared by all generation algorithms with the stopping conditions "
             "as counters and limits; TLC checks IterBound, NoIterationAfterBudget and termination, and the "
             "variants with `>` instead of `>=` or with a loop that does not consult the conditions must fail. "
             "Real in-process search runs (DYNAMOSA, MOSA, MIO, WHOLE_SUITE, RANDOM, random test-suite and "
             "test-case search; budgets of 1..10 iterations, 1..25 test executions, 30..60 statement executions) "
             "are recorded at every resources_left() consultation and iteration boundary with the conditions' own "
             "counters; TLC validates every run (SearchTrace.tla), recomputing 'budget reached' from the counters.",
        note="Iteration boundary = after_search_iteration; an iteration starts at the first successful loop test "
             "after the previous boundary. Time and memory conditions are not varied (iteration/execution/"
             "statement budgets as the property states).",
        technique="TLA+ spec + TLC (must-fail variants); recorded real search runs validated by TLC",
        design_ref="4.12, 5/C17",
    ),
    "C35": dict(
        category="model_checking",
        text="Report.tla checks for all small modules and traces that 'annotate every line, then sum' equals 'count "
             "over the registries'. End-to-end runs (6 corpus modules x MOSA/WHOLE_SUITE/MIO/RANDOM/DYNAMOSA x "
             "BRANCH/LINE metrics x seeds) record the report object, the coverage values Pynguin tracked and "
             "counts recomputed from the final suite's merged execution trace; TLC validates every generated suite "
             "(ReportTrace.tla: TotalsEqualTracked, TotalsEqualRecomputed, AnnotationsSumToTotals, "
             "LineShownCoveredIffCovered). The rendered cov_report.xml is parsed as well: a line is marked hit exactly when the report object says the line or something on it is covered (XmlHitsFollowAnnotations); corpus module c_report holds lines that carry a predicate and branch-less code objects at once.",
        note="Suites come from short searches (3 iterations) on small deterministic modules; floats are compared as "
             "rationals with denominator <= 10^6.",
        technique="TLA+ spec + TLC; recorded end-to-end runs validated by TLC",
        design_ref="4.13, 5/C35",
    ),
    "C18": dict(
        category="model_checking",
        text="Pipeline.tla models the post-search pipeline over all small test cases incl. the export decision table "
             "(a raising statement is wrapped in pytest.raises when expected, otherwise the function is marked "
             "xfail(strict); ExportVerdict). The file every end-to-end run exports is run with the real pytest in a "
             "fresh interpreter against the uninstrumented module; TLC validates collection and every per-test "
             "outcome (PipelineTrace.tla: FileImportsCleanly, TestVerdicts: passed, or xfailed exactly when marked). P2: TLC enumerates small suites over harness/sut/pp_sut.py (MC_PipelineProg: constructor, state-changing calls with and without branches, property read, nested-class and enum results, a raising call); real AssertionGenerator (all assertions / assertions on every other statement only, as the mutation-analysis filter leaves them), real generator._minimize with CASE/SUITE/COMBINED/NONE x FORWARD/BACKWARD, real TestSuiteWriter; every exported function is executed (TestVerdicts).",
        note="End-to-end runs of the shared corpus (6 deterministic modules x DYNAMOSA/MIO/WHOLE_SUITE x SIMPLE/MUTATION_ANALYSIS/NONE x 7 minimisation strategy/direction pairs x seeds; 4 iterations each); runs are cached per tree hash. pytest runs with only the corpus directory on PYTHONPATH.",
        technique="TLA+ spec + TLC; exported files of recorded end-to-end runs executed by pytest; TLC trace validation",
        design_ref="4.12, 5/C18",
    ),
    "C19": dict(
        category="model_checking",
        text="Pipeline.tla: KeepAsserts over all small test cases through statement minimisation, unused-variable "
             "removal and export; the variant of remove_unused_variables before commit 1355a01 must violate it. "
             "End-to-end runs: every statement that carries reference assertions after assertion generation and "
             "assertion minimisation must appear in the exported file followed by as many assert lines; TLC "
             "validates every such statement (PipelineTrace.tla: AssertionsKept). P2: the same TLC-enumerated suites through the real pipeline; every oracle attached after assertion generation must follow its statement in the exported function (statements matched in order). Pipeline.tla models assertions attached to a statement about other objects and the minimiser's protection rule (the pre-fix rule violates KeepAsserts: Pipeline_carriers.cfg).",
        note="End-to-end runs of the shared corpus (6 deterministic modules x DYNAMOSA/MIO/WHOLE_SUITE x SIMPLE/MUTATION_ANALYSIS/NONE x 7 minimisation strategy/direction pairs x seeds; 4 iterations each); runs are cached per tree hash. Statements are located by whitespace-normalised source (full statement or its "
             "right-hand side). Open known finding: the opt-in SUITE strategy removes whole asserted test cases.",
        technique="TLA+ spec + TLC (must-fail variant); recorded end-to-end runs validated by TLC",
        design_ref="4.11, 5/C19",
    ),
    "C22": dict(
        category="model_checking",
        text="Pipeline.tla: MinKeeps (coverage unchanged, only original statements, asserted statements kept) over "
             "all small test cases. End-to-end runs with CASE/SUITE/COMBINED/NONE x FORWARD/BACKWARD: coverage per "
             "optimised coverage function is recomputed by re-executing cache-free clones before and after "
             "generator._minimize; TLC validates CoveragePreserved, OnlyOriginalStatements, AssertedStatementsKept. P2: the same TLC-enumerated suites (one and two test cases), with and without assertions, through the real generator._minimize with every strategy and direction; coverage per function recomputed on cache-free clones (LINE and BRANCH together).",
        note="End-to-end runs of the shared corpus (6 deterministic modules x DYNAMOSA/MIO/WHOLE_SUITE x SIMPLE/MUTATION_ANALYSIS/NONE x 7 minimisation strategy/direction pairs x seeds; 4 iterations each); runs are cached per tree hash. Coverage floats compared by rank; statements by normalised source. Open known "
             "finding: SUITE strategy removes asserted test cases.",
        technique="TLA+ spec + TLC; recorded end-to-end runs validated by TLC",
        design_ref="4.11, 5/C22",
    ),
    "C24": dict(
        category="other",
        text="The file every end-to-end run exports is parsed back by the real seed parser (parse_seed_module on a "
             "real test cluster) and re-exported by the real TestSuiteWriter; for every exported test function TLC "
             "compares the hash of its code with the hash of the code rendered from the re-parsed test case "
             "(PipelineTrace.tla: SeedRoundTrip). Pipeline.tla is the design model of the pipeline producing the "
             "corpus. P2: TLC-enumerated test cases over harness/sut/pp_sut.py (all statement kinds, with and without assertions, unminimised and CASE-minimised so that unused bindings become bare expression statements) exported, re-parsed by the real seed parser and exported again, function by function.",
        note="Sampling over generated suites (shared end-to-end corpus): parser fidelity is not enumerable; TLA+ "
             "contributes the pipeline model and the formula evaluation. Open known finding: bare enum references "
             "come back alias-qualified (textual difference only).",
        technique="TLC trace validation of recorded export/re-parse events (two-stage round trip on real suites)",
        design_ref="5/C24",
    ),
    "C16": dict(
        category="other",
        text="Pairs of end-to-end runs with identical configuration and seed but different PYTHONHASHSEED in fresh "
             "interpreters; TLC evaluates SameSeedSameSuite on the hashes of the two exported files and the first "
             "diverging pipeline stage (search result, assertions, minimisation, export) is reported for "
             "localisation (PipelineTrace.tla). Corpus module c_hashy (enum with several methods, callables with several optional parameters, *args/**kwargs, two exception classes) is run with more iterations.",
        note="A hyperproperty over two whole runs is sampled (6..54 pairs), not enumerated. Found and repaired with "
             "it: hash-seed dependent iteration in TestCase._resolve_head_references (6dcfafc).",
        technique="two-run trace validation with TLC (lock-step comparison of recorded pipeline stages)",
        design_ref="5/C16",
    ),
    "C02": dict(
        category="model_checking",
        text="PyMini.tla is a big-step semantics of a Python fragment (if/while/for with else, break, continue, "
             "return, raise, try/except/finally; one statement per line) that predicts executed lines, decision "
             "outcomes, side effects and the way the function ends. TLC enumerates every program of the universe x "
             "every decision vector; each case is rendered to Python, run uninstrumented under sys.monitoring "
             "(interpreter ground truth) and through Pynguin's real import hook; TLC validates ReportedLinesExact "
             "and NoForeignLines on every case and cross-checks the semantics' own prediction against the "
             "interpreter (0 mismatches = the TLA+ semantics is right for the fragment). Plus the idiom and stdlib corpus (see C01): what Pynguin reports after an execution (import trace merged with the execution's trace) = import-time plus call-time LINE events of sys.monitoring over every code object of the module; results re-read after the suite-level analyze_results of all executions (IdiomTrace.tla ReportedLinesExact, NoForeignLines, SuiteAnalysisKeepsLines, MergedLinesAreUnion).",
        note="Exhaustive for programs with one compound statement (bodies of <= 2 simple statements) x decision "
             "vectors of length 3 (quick: 3 vectors per program), thorough adds 12000 nested depth-2 cases; Python "
             "outside the fragment (comprehensions, generators, with, match, closures, classes) is not covered.",
        technique="TLA+ operational semantics + TLC case enumeration replayed on real instrumentation; sys.monitoring ground truth; TLC trace validation",
        design_ref="4.6, 5/C02",
    ),
    "C03": dict(
        category="model_checking",
        text="Same PyMini universe as C02. For every case the outcomes taken at every deciding line (if, while "
             "entry and back-edge tests, for-loop iteration/exhaustion, except-clause match) are derived from "
             "sys.monitoring BRANCH events of the uninstrumented code object and compared by TLC with the outcomes "
             "Pynguin's trace reports as covered (BranchOutcomesExact); the number of registered predicates per "
             "line must equal the number of reachable conditional jumps / FOR_ITER (PredicatesRegistered) and "
             "the code object must be reported as entered. Plus the idiom and stdlib corpus (see C01): outcomes per deciding line = BRANCH events, one predicate per reachable conditional jump / FOR_ITER of every code object (IdiomTrace.tla BranchOutcomesExact, PredicatesRegistered, SuiteAnalysisKeepsOutcomes), and at callback level over the C04 enumeration: the outcome Python takes is recorded exactly once, nothing is recorded when the operator raises (TracerTrace.tla EvaluationRecorded, NothingRecordedIfOpRaises).",
        note="Comparison per source line (union over the jumps of that line) with Pynguin's own polarity rules per "
             "opcode; jumps in dead handlers (try body cannot raise) are not expected to be registered. Boolean "
             "operators, chained comparisons and match statements are outside the fragment.",
        technique="TLA+ operational semantics + TLC case enumeration replayed on real instrumentation; sys.monitoring ground truth; TLC trace validation",
        design_ref="4.6, 5/C03",
    ),
    "C01": dict(
        category="model_checking",
        text="(b) the C04 enumeration of comparison kinds x value classes on the real tracer callbacks: no user "
             "operator beyond those of the original operation, no iterator consumption, raises only if the "
             "operation raises (ObserveOnly, OnlyRaisesIfOpRaises); (c) every PyMini program x decision vector run "
             "uninstrumented and instrumented under rotating metric combinations (BRANCH, LINE, CHECKED; dynamic "
             "seeding always installed): instrumentation succeeds and return value, exception type and side-effect "
             "markers are identical (InstrumentationSucceeds, BehaviourPreserved). (d) idiom corpus: ~55 hand-written functions using constructs outside PyMini (comprehensions, generators, coroutines, with, match, except*, descriptors, __getattr__, super(), closures, dataclasses/enums, huge ints, NaN, raising protocols, multi-line keyword calls) and 44 pure-Python standard library modules copied under a new name with deterministic driver expressions (quick: 7), each x 8 inputs x every metric combination in forked children (an interpreter crash is an observation): IdiomTrace.tla InstrumentationSucceeds, BehaviourPreserved against the uninstrumented run.",
        note="The abstract stack machine of DESIGN 4.5 (part a) is not built. Side effects = list markers, return value, exception type. For the idiom and stdlib corpus the reference is the interpreter, not a TLA+ semantics. A predicate probe evaluates the operator of its own predicate once more than the interpreter (Pynguin's design); repeated calls of the same operator are outside the property.",
        technique="TLA+ specs (TracerOps, PyMini) + TLC enumeration replayed on the real tracer / import hook; TLC trace validation",
        design_ref="4.3, 4.6, 5/C01",
    ),
    "C08": dict(
        category="model_checking",
        text="PyMini.tla defines Excluded / LineGoals / PredGoals for programs with exclusion markers on statement, "
             "else, except and finally lines. TLC enumerates every program x every placement of one marker (thorough: "
             "two) and every --no-cover/--only-cover configuration over a second function, a class and its method, "
             "plus the `__main__` and TYPE_CHECKING blocks; each case is rendered, imported through Pynguin's real "
             "hook and TLC compares the registered line goals, predicates and code objects with the prediction "
             "(NoGoalInExcludedCode, AllOtherLinesAreGoals). Scope configurations include a method of a class nested in a class (Outer.Inner.deep) and only_cover of a class; try/else clauses are part of the program universe.",
        note="'Excluded code' for a marker on a compound header = header + the branch it heads; on a clause line = "
             "that clause. Executable line = reachable line of the compiled code object. elif chains, match "
             "statements and nested scopes deeper than class.method are not generated.",
        technique="TLA+ semantics + TLC case enumeration replayed on the real import hook; TLC trace validation",
        design_ref="4.6, 5/C08",
    ),
}

NOT_BUILT_REASON = "not built yet in this round (planned, see DESIGN.md section 5); no claim is made"
NOT_APPLICABLE = {}

# builder-delivered checks are only claimed once reviewed and listed here
READY = {"C27", "C10", "C11", "C14", "C28", "C20", "C23", "C13", "C12", "C29", "C06", "C07", "C25", "C26", "C15", "C21",
         "C31", "C09"}


def _load_from_notes() -> None:
    """Registry entries delivered by component builders live in notes/Cxx.md as a python block."""
    import re
    from pathlib import Path

    for md in sorted((Path(__file__).resolve().parent.parent / "notes").glob("C*.md")):
        txt = md.read_text()
        for block in re.findall(r"```python\n(.*?)```", txt, flags=re.S):
            m = re.search(r'^\s*"?(C\d+)"?\s*[:=]\s*dict\(', block, flags=re.M)
            if not m or m.group(1) in CHECKS:
                continue
            try:
                val = eval("{" + block.strip().rstrip(",") + "}", {"dict": dict})  # noqa: S307
            except Exception:  # noqa: BLE001
                try:
                    ns: dict = {}
                    exec(block, {"dict": dict, "CHECKS": ns})  # noqa: S102
                    val = ns
                except Exception:  # noqa: BLE001
                    continue
            for k, v in val.items():
                if isinstance(v, dict) and {"category", "text", "note", "technique"} <= set(v):
                    v.setdefault("design_ref", "5/" + k)
                    # only claim it when the check module exists
                    if k in READY and (Path(__file__).resolve().parent / "props" / f"{k}.py").exists():
                        CHECKS.setdefault(k, v)


_load_from_notes()

"""Shared machinery of every check: context, trace batches, verdicts, evidence, findings."""

from __future__ import annotations

import hashlib
import json
import os
import random
import shutil
import sys
import time
import traceback
from dataclasses import dataclass, field
from pathlib import Path
from typing import Any, Callable, Iterable

from harness import tlc
from harness.tlc import MachineryError, TlcResult

ROOT = Path(__file__).resolve().parent.parent
SPEC = ROOT / "spec"
# a run against a scratch worktree (VERIF_REPO, used to try seeded changes) must not overwrite the
# evidence and replays of the tree under verification
_SCRATCH = os.environ.get("VERIF_REPO") not in (None, "", "/repo")
EVIDENCE = ROOT / (".cache/scratch-evidence" if _SCRATCH else "evidence")
REPLAYS = ROOT / (".cache/scratch-replays" if _SCRATCH else "replays")
CACHE = ROOT / ".cache"
FINDINGS_FILE = ROOT / "known_findings.json"
REPO = Path(os.environ.get("VERIF_REPO", "/repo"))

NCPU = os.cpu_count() or 4


def load_findings() -> dict[str, dict]:
    """signature -> entry, only for entries with status == "open" (known_findings.json and
    known_findings.d/*.json; read-only, never written at run time)."""
    out: dict[str, dict] = {}
    files = [FINDINGS_FILE] if FINDINGS_FILE.exists() else []
    d = ROOT / "known_findings.d"
    if d.is_dir():
        files += sorted(d.glob("*.json"))
    for f in files:
        data = json.loads(f.read_text())
        for e in data.get("findings", []):
            if e.get("status") == "open":
                out[e["signature"]] = e
    return out


@dataclass
class Bad:
    """One violated property clause observed on state recorded from the real code."""

    clause: str  # name of the TLA+ invariant / action property that is false
    signature: str  # specific: property/clause/site-or-input class
    detail: str  # human readable: what fails
    trace: Any = None  # the recorded trace (events), for the replay file
    behaviour: Any = None  # the abstract behaviour / case that drove it


@dataclass
class Ctx:
    prop: str
    tier: str
    seed: int
    level: str = "model_checking"
    t0: float = field(default_factory=time.time)
    states: int = 0
    transitions: int = 0
    traces_validated: int = 0
    evaluations: int = 0
    nontrivial: set = field(default_factory=set)
    samples: list = field(default_factory=list)
    bads: list[Bad] = field(default_factory=list)
    drift: list[str] = field(default_factory=list)
    notes: dict[str, Any] = field(default_factory=dict)
    assumptions: list[str] = field(default_factory=list)
    tlc_runs: list[dict] = field(default_factory=list)
    rule: str = ""
    exhaustive: bool = False
    _work: Path | None = None

    # ---------------------------------------------------------------- scratch
    @property
    def work(self) -> Path:
        if self._work is None:
            self._work = CACHE / "run" / f"{self.prop}-{self.tier}-{os.getpid()}"
            shutil.rmtree(self._work, ignore_errors=True)
            self._work.mkdir(parents=True, exist_ok=True)
        return self._work

    @property
    def quick(self) -> bool:
        return self.tier == "quick"

    def rng(self, salt: str = "") -> random.Random:
        return random.Random(f"{self.seed}/{self.prop}/{salt}")

    # ---------------------------------------------------------------- TLC
    def _account(self, name: str, res: TlcResult, what: str) -> None:
        self.states += res.distinct
        self.transitions += res.generated
        self.tlc_runs.append({"module": name, "what": what, "distinct": res.distinct,
                              "generated": res.generated, "depth": res.depth,
                              "wall_s": round(res.wall_s, 2),
                              "violated": sorted({v.name for v in res.violations})})

    def design(self, module: str, cfg: str | None = None, *, expect_ok: bool = True,
               coverage_actions: Iterable[str] = (), workers: int | str = 6,
               timeout: int = 900, env: dict[str, str] | None = None, deadlock: bool = False,
               simulate: str | None = None, depth: int | None = None) -> TlcResult:
        """Exhaustive (or simulated) TLC run of a design model; must hold unless expect_ok=False."""
        res = tlc.run_tlc(module, cfg, workdir=self.work / f"d-{module}", workers=workers,
                          timeout=timeout, coverage=bool(coverage_actions), env=env,
                          deadlock=deadlock, simulate=simulate, depth=depth,
                          seed=self.seed if simulate else None)
        self._account(module, res, "design")
        if expect_ok and res.violations:
            v = res.violations[0]
            raise MachineryError(
                f"design model {module} violates {v.name}: the specification itself is wrong "
                f"(not a verdict about the code)\n" + json.dumps(v.states[-3:], indent=1)[:3000])
        for a in coverage_actions:
            if res.coverage.get(a, 0) == 0:
                raise MachineryError(f"vacuous design run: action {a} of {module} never taken")
        return res

    def behaviours(self, module: str, cfg: str | None = None, *, tag: str = "HIST",
                   workers: int | str = 6, timeout: int = 900,
                   env: dict[str, str] | None = None, simulate: str | None = None,
                   depth: int | None = None, seed: int | None = None) -> list[Any]:
        """Run an MC_ wrapper whose Emit invariant PrintT's <<tag, ToJson(x)>>; return the x's."""
        res = tlc.run_tlc(module, cfg, workdir=self.work / f"b-{module}", workers=workers,
                          timeout=timeout, env=env, simulate=simulate, depth=depth,
                          seed=seed if seed is not None else (self.seed if simulate else None))
        self._account(module, res, "behaviour-extraction")
        if res.violations:
            raise MachineryError(f"behaviour extraction {module} reported {res.violations[0].name}")
        out = []
        seen = set()
        for line in extract_prints(res.output, tag):
            if line in seen:
                continue
            seen.add(line)
            out.append(json.loads(line))
        return out

    def simulate(self, module: str, cfg: str, *, num: int, depth: int, timeout: int = 900,
                 env: dict[str, str] | None = None, seed: int | None = None) -> list[dict]:
        """Random behaviours: `tlc -simulate file=...`; returns the LAST state of every generated
        behaviour as {var: python value} (specs carry their history in a `hist` variable)."""
        wd = self.work / f"s-{module}-{len(self.tlc_runs)}"
        out = wd / "sim"
        out.mkdir(parents=True, exist_ok=True)
        res = tlc.run_tlc(module, cfg, workdir=wd, workers=1, timeout=timeout, env=env,
                          simulate=f"file={out}/tr,num={num}", depth=depth,
                          seed=self.seed if seed is None else seed)
        m = __import__("re").search(r"The number of states generated: (\d+)", res.output)
        if m:
            res.generated = int(m.group(1))
        self._account(module, res, "simulate")
        finals = []
        for f in sorted(out.iterdir()):
            txt = f.read_text()
            blocks = txt.split("STATE_")
            last = blocks[-1]
            last = last.split("==", 1)[1].rsplit("=====", 1)[0]
            state = {}
            for part in __import__("re").split(r"\n/\\ ", "\n" + last.strip()):
                part = part.strip()
                if not part:
                    continue
                if part.startswith("/\\ "):
                    part = part[3:]
                k, _, v = part.partition(" = ")
                state[k.strip()] = tlc.parse_tla_value(v.strip().rstrip("="))
            finals.append(state)
        shutil.rmtree(out, ignore_errors=True)
        return finals

    def validate(self, module: str, traces: list[dict], *, cfg: str | None = None,
                 timeout: int = 1800, chunk: int = 40000, workers: int | str = 1,
                 env: dict[str, str] | None = None, _single: bool = False) -> dict[int, list[tuple[str, int]]]:
        """Trace validation: TLC evaluates the property formulas of *module* on every recorded
        trace.  Returns {index in traces: [(violated formula, step)]}; traces absent are OK.

        TLC reports only the FIRST violated invariant (in cfg order) of a state.  Traces with a
        violation are therefore validated again, once per formula of the cfg, so that the verdict
        lists every violated formula and a caller that filters by clause cannot be blinded by an
        earlier clause that is violated in the same state."""
        verdicts: dict[int, list[tuple[str, int]]] = {}
        jobs = []
        for base in range(0, len(traces), chunk):
            part = traces[base:base + chunk]
            wd = self.work / f"v-{module}-{len(self.tlc_runs)}-{base}"
            wd.mkdir(parents=True, exist_ok=True)
            tf = wd / "traces.ndjson"
            with tf.open("w") as f:
                for i, t in enumerate(part):
                    t = dict(t)
                    t["tid"] = i + 1
                    f.write(json.dumps(t, separators=(",", ":")) + "\n")
            e = {"TRACE_FILE": str(tf)}
            if env:
                e.update(env)
            jobs.append((base, part, wd, e))

        def _one(job):
            base, part, wd, e = job
            return tlc.run_tlc(module, cfg, workdir=wd, workers=workers, timeout=timeout,
                               cont=True, env=e)

        from concurrent.futures import ThreadPoolExecutor
        with ThreadPoolExecutor(max_workers=3) as ex:
            results = list(ex.map(_one, jobs))
        for (base, part, wd, e), res in zip(jobs, results):
            self._account(module, res, "trace-validation")
            self.traces_validated += len(part)
            for v in res.violations:
                tid_txt = v.var("tid")
                l_txt = v.var("l")
                if tid_txt is None:
                    raise MachineryError(f"cannot attribute violation of {v.name} to a trace:\n"
                                         + res.output[-3000:])
                idx = base + int(tid_txt) - 1
                step = int(l_txt) if l_txt and l_txt.lstrip("-").isdigit() else -1
                lst = verdicts.setdefault(idx, [])
                if all(n != v.name for n, _ in lst):
                    lst.append((v.name, step))
            # every trace must have been walked to its end: distinct states >= sum of lengths
            expect = sum(len(t.get("ev", [])) + 1 for t in part)
            if res.distinct < expect and not res.violations:
                raise MachineryError(
                    f"trace validation {module}: only {res.distinct} states for {expect} trace "
                    f"positions (traces not fully consumed)")
            shutil.rmtree(wd, ignore_errors=True)
        if verdicts and not _single:
            self._complete_verdicts(module, traces, cfg, verdicts, timeout=timeout, workers=workers, env=env)
        return verdicts

    def _complete_verdicts(self, module, traces, cfg, verdicts, **kw) -> None:
        """TLC reports only the first violated formula (in cfg order) of a state.  The traces that have a
        violation are validated again with the formulas reported so far taken out of the cfg, until a
        round reports nothing new: every violated formula ends up in the verdict (per trace: the formulas
        violated in its first violating states; a formula first violated later in a trace is found in the
        round in which the earlier ones are gone)."""
        cfg_path = Path(cfg) if cfg else tlc.SPEC_DIR / f"{module}.cfg"
        if not cfg_path.is_absolute() and not cfg_path.exists():
            cfg_path = tlc.SPEC_DIR / cfg_path
        keep, formulas = [], []
        for line in cfg_path.read_text().splitlines():
            w = line.split()
            if w and w[0] in ("INVARIANT", "INVARIANTS", "PROPERTY", "PROPERTIES"):
                formulas += [("INVARIANT" if w[0].startswith("INV") else "PROPERTY", n) for n in w[1:]]
            else:
                keep.append(line)
        if len(formulas) < 2:
            return
        before = self.traces_validated
        subset = sorted(verdicts)
        removed: set[str] = set()
        for rnd in range(len(formulas)):
            found = {n for i in subset for n, _ in verdicts[i]} - removed
            if not found:
                break
            removed |= found
            rest = [(k, n) for k, n in formulas if n not in removed]
            if not rest:
                break
            part = [traces[i] for i in subset]
            one = self.work / f"{module}.round{rnd}.cfg"
            one.write_text("\n".join(keep + [f"{k} {n}" for k, n in rest]) + "\n")
            sub = self.validate(module, part, cfg=str(one), chunk=max(1, len(part)), _single=True, **kw)
            nxt = []
            for j, lst in sub.items():
                have = verdicts.setdefault(subset[j], [])
                for n, step in lst:
                    if all(n != m for m, _ in have):
                        have.append((n, step))
                nxt.append(subset[j])
            subset = sorted(nxt)
            if not subset:
                break
        self.traces_validated = before  # the extra rounds re-read traces that were already counted

    # ---------------------------------------------------------------- bookkeeping
    def sample(self, x: Any, limit: int = 5) -> None:
        if len(self.samples) < limit:
            self.samples.append(x)

    def nontriv(self, key: Any) -> None:
        self.nontrivial.add(key if isinstance(key, (str, int, tuple)) else json.dumps(key, sort_keys=True))

    def bad(self, clause: str, signature: str, detail: str, trace: Any = None, behaviour: Any = None):
        self.bads.append(Bad(clause, signature, detail, trace, behaviour))

    # ---------------------------------------------------------------- finish
    def finish(self) -> int:
        known = load_findings()
        seen_known: dict[str, Bad] = {}
        new: dict[str, Bad] = {}
        for b in self.bads:
            if b.signature in known and known[b.signature].get("property") == self.prop:
                seen_known.setdefault(b.signature, b)
            else:
                new.setdefault(b.signature, b)
        for sig, b in seen_known.items():
            print(f"KNOWN-FINDING: property={self.prop} {sig} :: {known[sig].get('what', b.detail)}")
        rc = 0
        replay_paths = []
        if new:
            rc = 1
            d = REPLAYS / self.prop
            d.mkdir(parents=True, exist_ok=True)
            for n, (sig, b) in enumerate(sorted(new.items())):
                h = hashlib.sha1(sig.encode()).hexdigest()[:10]
                path = d / f"{h}.json"
                path.write_text(json.dumps({
                    "property": self.prop, "clause": b.clause, "signature": sig,
                    "detail": b.detail, "behaviour": b.behaviour, "trace": b.trace,
                    "seed": self.seed, "tier": self.tier}, indent=1, default=str))
                replay_paths.append(str(path))
                print(f"VIOLATION property={self.prop} replay={path}")
                print(f"  clause={b.clause} signature={sig}")
                print(f"  {b.detail}")
        self.write_evidence(len(new), sorted(seen_known), replay_paths)
        if self._work is not None and rc == 0:
            shutil.rmtree(self._work, ignore_errors=True)
        return rc

    def write_evidence(self, nviol: int, known: list[str], replays: list[str]) -> None:
        EVIDENCE.mkdir(parents=True, exist_ok=True)
        cov: dict[str, Any] = {
            "states": self.states,
            "transitions": self.transitions,
            "traces_validated_against_impl": self.traces_validated,
            "evaluations": max(self.evaluations, self.traces_validated),
            "distinct_nontrivial": len(self.nontrivial),
            "rule": self.rule,
            "samples": self.samples[:6] or ["(none)"],
            "exhaustive": self.exhaustive,
            "tlc_runs": self.tlc_runs,
            "known_findings_seen": known,
            "drift": self.drift[:20],
            "checker_cmd": "tlc (tla2tools 1.8.0) via harness/tlc.py",
        }
        cov.update(self.notes)
        if self.level == "other":
            cov["explanation"] = self.notes.get("explanation", self.rule)
        ev = {
            "property_id": self.prop,
            "tier": self.tier,
            "seed": self.seed,
            "level": self.level,
            "coverage": cov,
            "assumptions": self.assumptions,
            "wall_s": round(time.time() - self.t0, 2),
            "violations": nviol,
            "replays": replays,
        }
        tmp = EVIDENCE / f".{self.prop}.json.tmp"
        tmp.write_text(json.dumps(ev, indent=1, default=str))
        tmp.replace(EVIDENCE / f"{self.prop}.json")


def extract_prints(output: str, tag: str) -> list[str]:
    """Return the JSON payloads of every `<<"tag", "json">>` PrintT line (bracket matching,
    robust to multi-worker interleaving across lines)."""
    out = []
    key = f'<<"{tag}", "'
    pos = 0
    while True:
        i = output.find(key, pos)
        if i < 0:
            break
        j = i + len(key)
        buf = []
        while j < len(output):
            c = output[j]
            if c == "\\":
                buf.append(output[j:j + 2])
                j += 2
                continue
            if c == '"':
                break
            buf.append(c)
            j += 1
        raw = "".join(buf)
        out.append(json.loads('"' + raw + '"'))
        pos = j
    return out


def parallel_map(fn: Callable, items: list, procs: int | None = None, chunksize: int = 16) -> list:
    """fork-based map (fn must be top-level); falls back to serial for tiny inputs."""
    procs = procs or min(NCPU, 16)
    if len(items) < 2 * chunksize or procs <= 1:
        return [fn(x) for x in items]
    import multiprocessing as mp
    with mp.get_context("fork").Pool(procs) as pool:
        return pool.map(fn, items, chunksize=chunksize)


def main_dispatch(argv: list[str]) -> int:
    import argparse
    import importlib

    ap = argparse.ArgumentParser(prog="check")
    ap.add_argument("prop")
    ap.add_argument("--tier", default=os.environ.get("VERIF_TIER", "quick"), choices=["quick", "thorough"])
    ap.add_argument("--replay", default=None)
    ap.add_argument("--seed", type=int, default=int(os.environ.get("VERIF_SEED", "0") or 0))
    a = ap.parse_args(argv)
    prop = a.prop.upper()
    try:
        mod = importlib.import_module(f"harness.props.{prop}")
    except ModuleNotFoundError as ex:
        print(f"no check for {prop}: {ex}", file=sys.stderr)
        return 2
    ctx = Ctx(prop=prop, tier=a.tier, seed=a.seed)
    if not a.replay:
        shutil.rmtree(REPLAYS / prop, ignore_errors=True)  # replay files of earlier runs are stale
    try:
        if a.replay:
            return mod.replay(ctx, json.loads(Path(a.replay).read_text()))
        mod.run(ctx)
        return ctx.finish()
    except MachineryError as ex:
        print(f"MACHINERY property={prop}: {ex}", file=sys.stderr)
        return 2
    except Exception:  # noqa: BLE001
        traceback.print_exc()
        print(f"MACHINERY property={prop}: harness exception", file=sys.stderr)
        return 2
